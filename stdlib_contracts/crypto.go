//go:build verif

// Assumed (trusted) contracts for crypto/aes, crypto/cipher, encoding/binary, bytes, io.
package stdlib_contracts

//@ package crypto/aes

//@ func NewCipher   trusted
//@   modifies nothing
//@   ensures result1 == nil ==> result0 != nil && (len(key) == 16 || len(key) == 24 || len(key) == 32)
//@   ensures result1 != nil ==> result0 == nil

//@ package crypto/cipher

//@ func (Block).BlockSize   trusted
//@   modifies nothing
//@   ensures result == 16

//@ func NewCBCDecrypter   trusted
//@   panics_if len(iv) != 16
//@   modifies nothing
//@   ensures result != nil

//@ func NewCBCEncrypter   trusted
//@   panics_if len(iv) != 16
//@   modifies nothing
//@   ensures result != nil

// documented: CryptBlocks panics if len(src) is not a multiple of the block size or len(dst) < len(src)
//@ func (BlockMode).CryptBlocks   trusted
//@   panics_if len(src) % 16 != 0 || len(dst) < len(src)
//@   modifies elems(dst)

//@ package encoding/binary

//@ func (bigEndian).Uint32   trusted
//@   panics_if len(b) < 4
//@   modifies nothing
//@   ensures result == int(b[0]) * 16777216 + int(b[1]) * 65536 + int(b[2]) * 256 + int(b[3])

//@ func (bigEndian).PutUint32   trusted
//@   panics_if len(b) < 4
//@   modifies elems(b)

//@ func (bigEndian).Uint64   trusted
//@   panics_if len(b) < 8
//@   modifies nothing

//@ func (bigEndian).PutUint64   trusted
//@   panics_if len(b) < 8
//@   modifies elems(b)

//@ package bytes

//@ func Repeat   trusted
//@   panics_if count < 0
//@   modifies nothing
//@   ensures len(result) == len(b) * count && fresh(result)
//@   ensures len(b) == 1 ==> forall(i, 0, len(result), result[i] == b[0])

//@ package io

//@ func ReadFull   trusted
//@   modifies elems(buf)
//@   ensures result1 == nil ==> result0 == len(buf)

//@ package fmt

//@ func Errorf   trusted
//@   modifies nothing
//@   ensures result != nil

//@ package errors

//@ func New   trusted
//@   modifies nothing
//@   ensures result != nil

//@ package sort

// documented: Search returns the smallest index i in [0, n) at which f(i) is true, or n
//@ func Search   trusted
//@   modifies nothing
//@   ensures 0 <= result && result <= n

//@ package bytes

// a Reader over b: gh("left", reader) is its unread length, gh("readerFor", array of b) remembers the reader made for b
//@ func NewReader   trusted
//@   modifies gh("readerFor", arrayOf(b))
//@   ensures result != nil && fresh(result) && gh("left", ref(result)) == len(b) && gh("readerFor", arrayOf(b)) == ref(result)
//@ func (*Reader).Len   trusted
//@   modifies nothing
//@   ensures result == gh("left", ref(r)) && result >= 0

//@ package crypto/cipher

// a CTR stream over a block cipher: reads the iv, allocates its own state (the stdlib panics if len(iv) != block size: the
// callers under contract pass exactly one block)
//@ func NewCTR   trusted
//@   modifies nothing
//@ func (Stream).XORKeyStream   trusted
//@   modifies elems(dst)
