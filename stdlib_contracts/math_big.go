//go:build verif

// Assumed (trusted, never checked) contracts for math/big.  val(x) is the mathematical value of *big.Int x (ghost).
// Receiver aliasing is modelled: z.Op(x, y) stores into z and returns z.
package stdlib_contracts

//@ package math/big

//@ func (*Int).Cmp   trusted
//@   panics_if x == nil || y == nil
//@   modifies nothing
//@   ensures -1 <= result && result <= 1 && (result < 0) == (val(x) < val(y)) && (result == 0) == (val(x) == val(y))

//@ func (*Int).CmpAbs   trusted
//@   panics_if x == nil || y == nil
//@   modifies nothing
//@   ensures -1 <= result && result <= 1 && (result < 0) == (abs(val(x)) < abs(val(y))) && (result == 0) == (abs(val(x)) == abs(val(y)))

//@ func (*Int).Sign   trusted
//@   panics_if x == nil
//@   modifies nothing
//@   ensures -1 <= result && result <= 1 && (result < 0) == (val(x) < 0) && (result == 0) == (val(x) == 0)

//@ func NewInt   trusted
//@   modifies nothing
//@   ensures result != nil && fresh(result) && val(result) == x

//@ func (*Int).Add   trusted
//@   panics_if z == nil || x == nil || y == nil
//@   modifies val(z)
//@   ensures result == z && val(z) == old(val(x)) + old(val(y))

//@ func (*Int).Sub   trusted
//@   panics_if z == nil || x == nil || y == nil
//@   modifies val(z)
//@   ensures result == z && val(z) == old(val(x)) - old(val(y))

//@ func (*Int).Mul   trusted
//@   panics_if z == nil || x == nil || y == nil
//@   modifies val(z)
//@   ensures result == z && val(z) == old(val(x)) * old(val(y))

//@ func (*Int).Div   trusted
//@   panics_if z == nil || x == nil || y == nil || val(y) == 0
//@   modifies val(z)
//@   ensures result == z
//@   ensures old(val(y)) > 0 ==> val(z) == old(val(x)) / old(val(y))

//@ func (*Int).Mod   trusted
//@   panics_if z == nil || x == nil || y == nil || val(y) == 0
//@   modifies val(z)
//@   ensures result == z
//@   ensures old(val(y)) > 0 ==> val(z) == old(val(x)) % old(val(y))

//@ func (*Int).Neg   trusted
//@   panics_if z == nil || x == nil
//@   modifies val(z)
//@   ensures result == z && val(z) == 0 - old(val(x))

//@ func (*Int).Abs   trusted
//@   panics_if z == nil || x == nil
//@   modifies val(z)
//@   ensures result == z && val(z) == abs(old(val(x)))

//@ func (*Int).Set   trusted
//@   panics_if z == nil || x == nil
//@   modifies val(z)
//@   ensures result == z && val(z) == old(val(x))

//@ func (*Int).SetUint64   trusted
//@   panics_if z == nil
//@   modifies val(z)
//@   ensures result == z && val(z) == x

//@ func (*Int).SetInt64   trusted
//@   panics_if z == nil
//@   modifies val(z)
//@   ensures result == z && val(z) == x

//@ func (*Int).Uint64   trusted
//@   panics_if x == nil
//@   modifies nothing
//@   ensures 0 <= val(x) && val(x) < 1<<64 ==> result == val(x)

//@ func (*Int).Int64   trusted
//@   panics_if x == nil
//@   modifies nothing
//@   ensures -(1<<63) <= val(x) && val(x) < 1<<63 ==> result == val(x)

//@ func (*Int).IsUint64   trusted
//@   panics_if x == nil
//@   modifies nothing
//@   ensures result == (0 <= val(x) && val(x) < 1<<64)

//@ func (*Int).IsInt64   trusted
//@   panics_if x == nil
//@   modifies nothing
//@   ensures result == (-(1<<63) <= val(x) && val(x) < 1<<63)

//@ func (*Int).BitLen   trusted
//@   panics_if x == nil
//@   modifies nothing
//@   ensures result >= 0 && (result == 0) == (val(x) == 0)
//@   ensures result <= 64 ==> abs(val(x)) < 1<<64
//@   ensures result > 64 ==> abs(val(x)) >= 1<<64
