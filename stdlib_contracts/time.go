//go:build verif

// Assumed (trusted) contract for the wall clock. gh("clock", 0) is the most recent reading in seconds; every call of time.Now
// may change it arbitrarily (the clock is not assumed monotone), within +-2^62 seconds of the epoch.
package stdlib_contracts

//@ package time

//@ func (Time).Unix   pure trusted
//@   opt heap-independent

//@ func Now   trusted
//@   modifies gh("clock", 0)
//@   ensures result.Unix() == gh("clock", 0)
//@   ensures -4611686018427387904 <= gh("clock", 0) && gh("clock", 0) <= 4611686018427387904
