//go:build verif

// Assumed contracts for small helpers of the repository's own `common` package that are outside the loaded set.
package stdlib_contracts

//@ package common

//@ func CopyBytes   trusted
//@   modifies nothing
//@   ensures isNil(b) ==> isNil(result)
//@   ensures !isNil(b) ==> len(result) == len(b) && fresh(result) && content(result) == content(b)

// parsing a Lemo address string is a function of the string alone; the empty string is not an address
//@ func StringToAddress   pure trusted
//@   opt heap-independent
//@   ensures s == "" ==> result1 != nil
