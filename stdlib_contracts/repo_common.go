//go:build verif

// Assumed contracts for small helpers of the repository's own `common` package that are outside the loaded set.
package stdlib_contracts

//@ package common

//@ func CopyBytes   trusted
//@   modifies nothing
// (two empty slices have the same content)
//@   ensures isNil(b) ==> isNil(result) && content(result) == content(b)
//@   ensures !isNil(b) ==> len(result) == len(b) && fresh(result) && content(result) == content(b)

// parsing a Lemo address string is a function of the string alone; the empty string is not an address
//@ func StringToAddress   pure trusted
//@   opt heap-independent
//@   ensures s == "" ==> result1 != nil

// the low 20 bytes of the number, as an address value: reads its argument only
//@ func BigToAddress   trusted
//@   modifies nothing

//@ package common/math

// x + y with an overflow flag (`return x + y, y > MaxUint64-x`; the package is outside the loaded set)
//@ func SafeAdd   trusted
//@   modifies nothing
//@   ensures result1 == (int(x) + int(y) > 18446744073709551615)
//@   ensures !result1 ==> int(result0) == int(x) + int(y)
