#!/usr/bin/env python3
# validates MANIFEST.json and evidence files against the schemas (run with python3-vt)
import json, jsonschema, glob, sys
m = json.load(open('/verif/MANIFEST.json'))
jsonschema.validate(m, json.load(open('/root/.vp/MANIFEST.schema.json')))
print('manifest ok:', [c['property_id'] for c in m['checks']])
sch = json.load(open('/root/.vp/EVIDENCE.schema.json'))
for f in sorted(glob.glob('/verif/evidence/C*.json')):
    e = json.load(open(f))
    jsonschema.validate(e, sch)
    c = e['coverage']
    print(f.split('/')[-1], 'ok', c.get('obligations'), c.get('discharged'), 'violations', e.get('violations'), 'wall', e['wall_s'])
