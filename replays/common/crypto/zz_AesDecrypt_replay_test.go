//go:build verif

package crypto

// Replay adapter of govc for AesDecrypt: arbitrary ciphertext and key bytes give a value or an error, never a panic.
import (
	"encoding/json"
	"fmt"
	"math/big"
	"os"
	"strings"
	"testing"
)

type govcModel struct {
	Obligation string            `json:"obligation"`
	Model      map[string]string `json:"model"`
}

func govcLoad(t *testing.T) govcModel {
	var m govcModel
	data, err := os.ReadFile(os.Getenv("GOVC_MODEL"))
	if err != nil {
		t.Skip("no model")
	}
	if err := json.Unmarshal(data, &m); err != nil {
		t.Fatal(err)
	}
	return m
}

// integers of the model are mathematical: reduce them to the machine type the way the verifier reads parameters
func govcInt(m map[string]string, k string) (*big.Int, bool) {
	s, ok := m[k]
	if !ok {
		return nil, false
	}
	v, ok := new(big.Int).SetString(strings.TrimSpace(s), 10)
	return v, ok
}

func govcU64(m map[string]string, k string) uint64 {
	v, ok := govcInt(m, k)
	if !ok {
		return 0
	}
	return new(big.Int).And(v, new(big.Int).SetUint64(^uint64(0))).Uint64()
}

func govcBytes(t *testing.T, m map[string]string, name string) []byte {
	n, ok := govcInt(m, "len("+name+")")
	if !ok || n.Sign() < 0 || n.Int64() > 48 {
		t.Skip("model has no short value for " + name)
	}
	c, _ := govcInt(m, "cap("+name+")")
	cp := int(n.Int64())
	if c != nil && c.IsInt64() && c.Int64() >= n.Int64() && c.Int64() <= 4096 {
		cp = int(c.Int64())
	}
	b := make([]byte, n.Int64(), cp)
	for i := range b {
		b[i] = byte(govcU64(m, fmt.Sprintf("%s[%d]", name, i)))
	}
	return b
}

func TestVerifReplay(t *testing.T) {
	m := govcLoad(t)
	enc, key := govcBytes(t, m.Model, "encResult"), govcBytes(t, m.Model, "key")
	fmt.Printf("replay input: encResult=%x key=%x\n", enc, key)
	defer func() {
		if r := recover(); r != nil {
			fmt.Println("CONTRACT VIOLATED: AesDecrypt panicked:", r)
		}
	}()
	out, err := AesDecrypt(enc, key)
	if err == nil && (out == nil || len(out) >= len(enc) || len(enc) < 16) {
		fmt.Printf("CONTRACT VIOLATED: AesDecrypt returned %d bytes for %d bytes of ciphertext without an error\n", len(out), len(enc))
	}
	if err != nil && out != nil {
		fmt.Println("CONTRACT VIOLATED: AesDecrypt returned both data and an error")
	}
	fmt.Println("replay done")
}
