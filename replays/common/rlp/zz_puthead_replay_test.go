//go:build verif

package rlp

// Replay adapter of govc for puthead: one header byte below 56, otherwise tag + minimal big-endian length.
import (
	"encoding/json"
	"fmt"
	"math/big"
	"os"
	"strings"
	"testing"
)

type govcModel struct {
	Obligation string            `json:"obligation"`
	Model      map[string]string `json:"model"`
}

func govcLoad(t *testing.T) govcModel {
	var m govcModel
	data, err := os.ReadFile(os.Getenv("GOVC_MODEL"))
	if err != nil {
		t.Skip("no model")
	}
	if err := json.Unmarshal(data, &m); err != nil {
		t.Fatal(err)
	}
	return m
}

// integers of the model are mathematical: reduce them to the machine type the way the verifier reads parameters
func govcInt(m map[string]string, k string) (*big.Int, bool) {
	s, ok := m[k]
	if !ok {
		return nil, false
	}
	v, ok := new(big.Int).SetString(strings.TrimSpace(s), 10)
	return v, ok
}

func govcU64(m map[string]string, k string) uint64 {
	v, ok := govcInt(m, k)
	if !ok {
		return 0
	}
	return new(big.Int).And(v, new(big.Int).SetUint64(^uint64(0))).Uint64()
}

func govcBytes(t *testing.T, m map[string]string, name string) []byte {
	n, ok := govcInt(m, "len("+name+")")
	if !ok || n.Sign() < 0 || n.Int64() > 48 {
		t.Skip("model has no short value for " + name)
	}
	c, _ := govcInt(m, "cap("+name+")")
	cp := int(n.Int64())
	if c != nil && c.IsInt64() && c.Int64() >= n.Int64() && c.Int64() <= 4096 {
		cp = int(c.Int64())
	}
	b := make([]byte, n.Int64(), cp)
	for i := range b {
		b[i] = byte(govcU64(m, fmt.Sprintf("%s[%d]", name, i)))
	}
	return b
}

func TestVerifReplay(t *testing.T) {
	m := govcLoad(t)
	size := govcU64(m.Model, "size")
	small, large := byte(govcU64(m.Model, "smalltag")), byte(govcU64(m.Model, "largetag"))
	buf := make([]byte, 9)
	fmt.Printf("replay input: size=%d smalltag=%#x largetag=%#x\n", size, small, large)
	defer func() {
		if r := recover(); r != nil {
			fmt.Println("CONTRACT VIOLATED: puthead panicked:", r)
		}
	}()
	n := puthead(buf, small, large, size)
	if size < 56 {
		if n != 1 || int(buf[0]) != int(small)+int(size) {
			fmt.Printf("CONTRACT VIOLATED: puthead(size=%d) = %d, header % x\n", size, n, buf[:1])
		}
	} else {
		if n < 2 || n > 9 || int(buf[0]) != int(large)+n-1 || buf[1] == 0 {
			fmt.Printf("CONTRACT VIOLATED: puthead(size=%d) = %d, header % x\n", size, n, buf[:9])
			return
		}
		var be uint64
		for k := 1; k < n; k++ {
			be = be<<8 | uint64(buf[k])
		}
		if be != size {
			fmt.Printf("CONTRACT VIOLATED: puthead(size=%d) encodes length %d\n", size, be)
		}
	}
	fmt.Println("replay done")
}
