//go:build verif

package rlp

// Replay adapter of govc for intsize: the minimal number of bytes of an unsigned integer.
import (
	"encoding/json"
	"fmt"
	"math/big"
	"os"
	"strings"
	"testing"
)

type govcModel struct {
	Obligation string            `json:"obligation"`
	Model      map[string]string `json:"model"`
}

func govcLoad(t *testing.T) govcModel {
	var m govcModel
	data, err := os.ReadFile(os.Getenv("GOVC_MODEL"))
	if err != nil {
		t.Skip("no model")
	}
	if err := json.Unmarshal(data, &m); err != nil {
		t.Fatal(err)
	}
	return m
}

// integers of the model are mathematical: reduce them to the machine type the way the verifier reads parameters
func govcInt(m map[string]string, k string) (*big.Int, bool) {
	s, ok := m[k]
	if !ok {
		return nil, false
	}
	v, ok := new(big.Int).SetString(strings.TrimSpace(s), 10)
	return v, ok
}

func govcU64(m map[string]string, k string) uint64 {
	v, ok := govcInt(m, k)
	if !ok {
		return 0
	}
	return new(big.Int).And(v, new(big.Int).SetUint64(^uint64(0))).Uint64()
}

func govcBytes(t *testing.T, m map[string]string, name string) []byte {
	n, ok := govcInt(m, "len("+name+")")
	if !ok || n.Sign() < 0 || n.Int64() > 48 {
		t.Skip("model has no short value for " + name)
	}
	c, _ := govcInt(m, "cap("+name+")")
	cp := int(n.Int64())
	if c != nil && c.IsInt64() && c.Int64() >= n.Int64() && c.Int64() <= 4096 {
		cp = int(c.Int64())
	}
	b := make([]byte, n.Int64(), cp)
	for i := range b {
		b[i] = byte(govcU64(m, fmt.Sprintf("%s[%d]", name, i)))
	}
	return b
}

func TestVerifReplay(t *testing.T) {
	m := govcLoad(t)
	i := govcU64(m.Model, "i")
	fmt.Printf("replay input: i=%d\n", i)
	defer func() {
		if r := recover(); r != nil {
			fmt.Println("CONTRACT VIOLATED: intsize panicked:", r)
		}
	}()
	got := intsize(i)
	want := 1
	for v := i >> 8; v > 0; v >>= 8 {
		want++
	}
	if got != want {
		fmt.Printf("CONTRACT VIOLATED: intsize(%d) = %d, minimal size is %d\n", i, got, want)
	}
	fmt.Println("replay done")
}
