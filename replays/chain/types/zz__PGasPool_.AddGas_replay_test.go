//go:build verif

package types

// Replay adapter of govc for (*GasPool).AddGas.
import (
	"encoding/json"
	"fmt"
	"math/big"
	"os"
	"strings"
	"testing"
)

type govcModel struct {
	Obligation string            `json:"obligation"`
	Model      map[string]string `json:"model"`
}

func govcLoad(t *testing.T) govcModel {
	var m govcModel
	data, err := os.ReadFile(os.Getenv("GOVC_MODEL"))
	if err != nil {
		t.Skip("no model")
	}
	if err := json.Unmarshal(data, &m); err != nil {
		t.Fatal(err)
	}
	return m
}

// integers of the model are mathematical: reduce them to the machine type the way the verifier reads parameters
func govcInt(m map[string]string, k string) (*big.Int, bool) {
	s, ok := m[k]
	if !ok {
		return nil, false
	}
	v, ok := new(big.Int).SetString(strings.TrimSpace(s), 10)
	return v, ok
}

func govcU64(m map[string]string, k string) uint64 {
	v, ok := govcInt(m, k)
	if !ok {
		return 0
	}
	return new(big.Int).And(v, new(big.Int).SetUint64(^uint64(0))).Uint64()
}

func govcBytes(t *testing.T, m map[string]string, name string) []byte {
	n, ok := govcInt(m, "len("+name+")")
	if !ok || n.Sign() < 0 || n.Int64() > 48 {
		t.Skip("model has no short value for " + name)
	}
	c, _ := govcInt(m, "cap("+name+")")
	cp := int(n.Int64())
	if c != nil && c.IsInt64() && c.Int64() >= n.Int64() && c.Int64() <= 4096 {
		cp = int(c.Int64())
	}
	b := make([]byte, n.Int64(), cp)
	for i := range b {
		b[i] = byte(govcU64(m, fmt.Sprintf("%s[%d]", name, i)))
	}
	return b
}

func TestVerifReplay(t *testing.T) {
	m := govcLoad(t)
	g0, amount := govcU64(m.Model, "g0"), govcU64(m.Model, "amount")
	gp := GasPool(g0)
	fmt.Printf("replay input: *gp=%d amount=%d\n", g0, amount)
	defer func() {
		if r := recover(); r != nil {
			if g0 <= ^uint64(0)-amount {
				fmt.Println("CONTRACT VIOLATED: AddGas panicked without an overflow:", r)
			}
		}
	}()
	gp.AddGas(amount)
	if g0 > ^uint64(0)-amount {
		fmt.Printf("CONTRACT VIOLATED: AddGas(%d) on a pool of %d wrapped around to %d\n", amount, g0, uint64(gp))
	} else if uint64(gp) != g0+amount {
		fmt.Printf("CONTRACT VIOLATED: AddGas(%d) on a pool of %d gives %d\n", amount, g0, uint64(gp))
	}
	fmt.Println("replay done")
}
