//go:build verif

package vm

// Replay adapter of govc for (*Contract).UseGas.
import (
	"encoding/json"
	"fmt"
	"math/big"
	"os"
	"strings"
	"testing"
)

type govcModel struct {
	Obligation string            `json:"obligation"`
	Model      map[string]string `json:"model"`
}

func govcLoad(t *testing.T) govcModel {
	var m govcModel
	data, err := os.ReadFile(os.Getenv("GOVC_MODEL"))
	if err != nil {
		t.Skip("no model")
	}
	if err := json.Unmarshal(data, &m); err != nil {
		t.Fatal(err)
	}
	return m
}

// integers of the model are mathematical: reduce them to the machine type the way the verifier reads parameters
func govcInt(m map[string]string, k string) (*big.Int, bool) {
	s, ok := m[k]
	if !ok {
		return nil, false
	}
	v, ok := new(big.Int).SetString(strings.TrimSpace(s), 10)
	return v, ok
}

func govcU64(m map[string]string, k string) uint64 {
	v, ok := govcInt(m, k)
	if !ok {
		return 0
	}
	return new(big.Int).And(v, new(big.Int).SetUint64(^uint64(0))).Uint64()
}

func TestVerifReplay(t *testing.T) {
	m := govcLoad(t)
	c := &Contract{Gas: govcU64(m.Model, "gasLeft")}
	gas := govcU64(m.Model, "gas")
	before := c.Gas
	fmt.Printf("replay input: contract gas=%d, gas to use=%d\n", before, gas)
	ok := c.UseGas(gas)
	switch {
	case ok != (before >= gas):
		fmt.Printf("CONTRACT VIOLATED: UseGas(%d) with %d left returned %v\n", gas, before, ok)
	case ok && c.Gas != before-gas:
		fmt.Printf("CONTRACT VIOLATED: UseGas(%d) with %d left leaves %d\n", gas, before, c.Gas)
	case !ok && c.Gas != before:
		fmt.Printf("CONTRACT VIOLATED: refused UseGas(%d) changed the gas from %d to %d\n", gas, before, c.Gas)
	}
	fmt.Println("replay done")
}
