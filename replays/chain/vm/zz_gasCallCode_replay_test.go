//go:build verif

package vm

// Replay adapter of govc for gasCallCode (the dynamic gas of CALLCODE covers what opCallCode hands to the callee).
import (
	"encoding/json"
	"fmt"
	"math/big"
	"os"
	"strings"
	"testing"

	"github.com/LemoFoundationLtd/lemochain-core/chain/params"
)

type govcModel struct {
	Obligation string            `json:"obligation"`
	Model      map[string]string `json:"model"`
}

func govcLoad(t *testing.T) govcModel {
	var m govcModel
	data, err := os.ReadFile(os.Getenv("GOVC_MODEL"))
	if err != nil {
		t.Skip("no model")
	}
	if err := json.Unmarshal(data, &m); err != nil {
		t.Fatal(err)
	}
	return m
}

// integers of the model are mathematical: reduce them to the machine type the way the verifier reads parameters
func govcInt(m map[string]string, k string) (*big.Int, bool) {
	s, ok := m[k]
	if !ok {
		return nil, false
	}
	v, ok := new(big.Int).SetString(strings.TrimSpace(s), 10)
	return v, ok
}

func govcU64(m map[string]string, k string) uint64 {
	v, ok := govcInt(m, k)
	if !ok {
		return 0
	}
	return new(big.Int).And(v, new(big.Int).SetUint64(^uint64(0))).Uint64()
}

func TestVerifReplay(t *testing.T) {
	m := govcLoad(t)
	gasOp, ok0 := govcInt(m.Model, "gasOperand")
	valOp, ok2 := govcInt(m.Model, "valueOperand")
	if !ok0 || !ok2 {
		t.Skip("model has no stack operands")
	}
	var gt params.GasTable
	gt.Calls = govcU64(m.Model, "calls")
	gt.CreateBySuicide = govcU64(m.Model, "cbs")
	contract := &Contract{Gas: govcU64(m.Model, "gasLeft")}
	memorySize := govcU64(m.Model, "memorySize")
	stack := newstack()
	// CALLCODE operands, top of stack first: gas, address, value, inOffset, inSize, retOffset, retSize
	for i := 0; i < 4; i++ {
		stack.push(new(big.Int))
	}
	stack.push(new(big.Int).Set(valOp))
	stack.push(new(big.Int))
	stack.push(new(big.Int).Set(gasOp))
	evm := &EVM{}
	fmt.Printf("replay input: gas operand=%s value operand=%s gas left=%d Calls=%d CreateBySuicide=%d memorySize=%d\n", gasOp, valOp, contract.Gas, gt.Calls, gt.CreateBySuicide, memorySize)
	defer func() {
		if r := recover(); r != nil {
			fmt.Println("replay: gasCallCode panicked:", r)
		}
	}()
	charged, err := gasCallCode(gt, evm, contract, stack, NewMemory(), memorySize)
	if err != nil {
		fmt.Println("replay done (error path):", err)
		return
	}
	handed := new(big.Int).SetUint64(evm.callGasTemp)
	if valOp.Sign() != 0 {
		handed.Add(handed, new(big.Int).SetUint64(params.CallStipend))
	}
	if new(big.Int).SetUint64(charged).Cmp(handed) < 0 {
		fmt.Printf("CONTRACT VIOLATED: CALLCODE is charged %d gas but the callee is handed %s (callGasTemp %d + stipend): gas is created\n", charged, handed, evm.callGasTemp)
	}
	fmt.Println("replay done")
}
