//go:build verif

package vm

// Replay adapter of govc for callGas (EIP-150 all-but-one-64th rule).
import (
	"encoding/json"
	"fmt"
	"math/big"
	"os"
	"strings"
	"testing"

	"github.com/LemoFoundationLtd/lemochain-core/chain/params"
)

type govcModel struct {
	Obligation string            `json:"obligation"`
	Model      map[string]string `json:"model"`
}

func govcLoad(t *testing.T) govcModel {
	var m govcModel
	data, err := os.ReadFile(os.Getenv("GOVC_MODEL"))
	if err != nil {
		t.Skip("no model")
	}
	if err := json.Unmarshal(data, &m); err != nil {
		t.Fatal(err)
	}
	return m
}

// integers of the model are mathematical: reduce them to the machine type the way the verifier reads parameters
func govcInt(m map[string]string, k string) (*big.Int, bool) {
	s, ok := m[k]
	if !ok {
		return nil, false
	}
	v, ok := new(big.Int).SetString(strings.TrimSpace(s), 10)
	return v, ok
}

func govcU64(m map[string]string, k string) uint64 {
	v, ok := govcInt(m, k)
	if !ok {
		return 0
	}
	return new(big.Int).And(v, new(big.Int).SetUint64(^uint64(0))).Uint64()
}

func govcBytes(t *testing.T, m map[string]string, name string) []byte {
	n, ok := govcInt(m, "len("+name+")")
	if !ok || n.Sign() < 0 || n.Int64() > 48 {
		t.Skip("model has no short value for " + name)
	}
	c, _ := govcInt(m, "cap("+name+")")
	cp := int(n.Int64())
	if c != nil && c.IsInt64() && c.Int64() >= n.Int64() && c.Int64() <= 4096 {
		cp = int(c.Int64())
	}
	b := make([]byte, n.Int64(), cp)
	for i := range b {
		b[i] = byte(govcU64(m, fmt.Sprintf("%s[%d]", name, i)))
	}
	return b
}

func TestVerifReplay(t *testing.T) {
	m := govcLoad(t)
	avail, base := govcU64(m.Model, "availableGas"), govcU64(m.Model, "base")
	cc, ok := govcInt(m.Model, "cc")
	if !ok {
		t.Skip("model has no callCost")
	}
	var gt params.GasTable
	gt.CreateBySuicide = govcU64(m.Model, "cbs")
	fmt.Printf("replay input: CreateBySuicide=%d availableGas=%d base=%d callCost=%s\n", gt.CreateBySuicide, avail, base, cc)
	defer func() {
		if r := recover(); r != nil {
			fmt.Println("CONTRACT VIOLATED: callGas panicked:", r)
		}
	}()
	g, err := callGas(gt, avail, base, cc)
	if err == nil && gt.CreateBySuicide > 0 && base <= avail {
		left := avail - base
		if g > left-left/64 {
			fmt.Printf("CONTRACT VIOLATED: callGas hands out %d, more than all but one 64th (%d) of the %d left\n", g, left-left/64, left)
		}
	}
	if err == nil && gt.CreateBySuicide == 0 && new(big.Int).SetUint64(g).Cmp(cc) != 0 {
		fmt.Printf("CONTRACT VIOLATED: callGas = %d, call cost %s\n", g, cc)
	}
	if err != nil && (g != 0 || err != errGasUintOverflow) {
		fmt.Printf("CONTRACT VIOLATED: callGas = %d, %v\n", g, err)
	}
	fmt.Println("replay done")
}
