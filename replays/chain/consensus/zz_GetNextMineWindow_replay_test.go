//go:build verif

package consensus

// Replay adapter of govc for GetNextMineWindow (uses the package's own test helpers to build a deputy manager).
import (
	"encoding/json"
	"fmt"
	"math/big"
	"os"
	"strings"
	"testing"
)

type govcModel struct {
	Obligation string            `json:"obligation"`
	Model      map[string]string `json:"model"`
}

func govcLoad(t *testing.T) govcModel {
	var m govcModel
	data, err := os.ReadFile(os.Getenv("GOVC_MODEL"))
	if err != nil {
		t.Skip("no model")
	}
	if err := json.Unmarshal(data, &m); err != nil {
		t.Fatal(err)
	}
	return m
}

// integers of the model are mathematical: reduce them to the machine type the way the verifier reads parameters
func govcInt(m map[string]string, k string) (*big.Int, bool) {
	s, ok := m[k]
	if !ok {
		return nil, false
	}
	v, ok := new(big.Int).SetString(strings.TrimSpace(s), 10)
	return v, ok
}

func govcU64(m map[string]string, k string) uint64 {
	v, ok := govcInt(m, k)
	if !ok {
		return 0
	}
	return new(big.Int).And(v, new(big.Int).SetUint64(^uint64(0))).Uint64()
}

func govcBytes(t *testing.T, m map[string]string, name string) []byte {
	n, ok := govcInt(m, "len("+name+")")
	if !ok || n.Sign() < 0 || n.Int64() > 48 {
		t.Skip("model has no short value for " + name)
	}
	c, _ := govcInt(m, "cap("+name+")")
	cp := int(n.Int64())
	if c != nil && c.IsInt64() && c.Int64() >= n.Int64() && c.Int64() <= 4096 {
		cp = int(c.Int64())
	}
	b := make([]byte, n.Int64(), cp)
	for i := range b {
		b[i] = byte(govcU64(m, fmt.Sprintf("%s[%d]", name, i)))
	}
	return b
}

func TestVerifReplay(t *testing.T) {
	m := govcLoad(t)
	n, ok := govcInt(m.Model, "n")
	if !ok || n.Sign() <= 0 || n.Int64() > int64(len(testDeputies)) {
		t.Skipf("model deputy count %v cannot be built with the %d test deputies", n, len(testDeputies))
	}
	distance := uint32(govcU64(m.Model, "distance"))
	parentTime, currentTime, T := int64(govcU64(m.Model, "parentTime")), int64(govcU64(m.Model, "currentTime")), int64(govcU64(m.Model, "mineTimeout"))
	dm := initDeputyManager(int(n.Int64()))
	fmt.Printf("replay input: deputies=%d distance=%d parentTime=%d currentTime=%d mineTimeout=%d\n", n.Int64(), distance, parentTime, currentTime, T)
	defer func() {
		if r := recover(); r != nil {
			fmt.Println("CONTRACT VIOLATED: GetNextMineWindow panicked:", r)
		}
	}()
	from, to := GetNextMineWindow(1, distance, parentTime, currentTime, T, dm)
	if !(from < to && to-from == T) {
		fmt.Printf("CONTRACT VIOLATED: window [%d, %d) is not one slot (%d) long\n", from, to, T)
	}
	if to <= currentTime {
		fmt.Printf("CONTRACT VIOLATED: window [%d, %d) is already over at %d\n", from, to, currentTime)
	}
	loop := n.Int64() * T
	for _, tm := range []int64{from, to - 1, from + T/2} {
		if tm < parentTime || ((tm-parentTime)%loop)/T+1 != int64(distance) {
			fmt.Printf("CONTRACT VIOLATED: time %d inside the window [%d, %d) is in slot %d, not %d\n", tm, from, to, ((tm-parentTime)%loop)/T+1, distance)
			break
		}
	}
	if !(to-loop <= currentTime || from == parentTime+(int64(distance)-1)*T) {
		fmt.Printf("CONTRACT VIOLATED: window [%d, %d) is not the next one after %d\n", from, to, currentTime)
	}
	fmt.Println("replay done")
}
