//go:build verif

package transaction

// Replay adapter of govc for addTxDataSpendGas (intrinsic gas of data and message).
import (
	"encoding/json"
	"fmt"
	"github.com/LemoFoundationLtd/lemochain-core/chain/params"
	"math/big"
	"os"
	"strings"
	"testing"
)

type govcModel struct {
	Obligation string            `json:"obligation"`
	Model      map[string]string `json:"model"`
}

func govcLoad(t *testing.T) govcModel {
	var m govcModel
	data, err := os.ReadFile(os.Getenv("GOVC_MODEL"))
	if err != nil {
		t.Skip("no model")
	}
	if err := json.Unmarshal(data, &m); err != nil {
		t.Fatal(err)
	}
	return m
}

// integers of the model are mathematical: reduce them to the machine type the way the verifier reads parameters
func govcInt(m map[string]string, k string) (*big.Int, bool) {
	s, ok := m[k]
	if !ok {
		return nil, false
	}
	v, ok := new(big.Int).SetString(strings.TrimSpace(s), 10)
	return v, ok
}

func govcU64(m map[string]string, k string) uint64 {
	v, ok := govcInt(m, k)
	if !ok {
		return 0
	}
	return new(big.Int).And(v, new(big.Int).SetUint64(^uint64(0))).Uint64()
}

func govcBytes(t *testing.T, m map[string]string, name string) []byte {
	n, ok := govcInt(m, "len("+name+")")
	if !ok || n.Sign() < 0 || n.Int64() > 48 {
		t.Skip("model has no short value for " + name)
	}
	c, _ := govcInt(m, "cap("+name+")")
	cp := int(n.Int64())
	if c != nil && c.IsInt64() && c.Int64() >= n.Int64() && c.Int64() <= 4096 {
		cp = int(c.Int64())
	}
	b := make([]byte, n.Int64(), cp)
	for i := range b {
		b[i] = byte(govcU64(m, fmt.Sprintf("%s[%d]", name, i)))
	}
	return b
}

func TestVerifReplay(t *testing.T) {
	m := govcLoad(t)
	data := govcBytes(t, m.Model, "data")
	gas := govcU64(m.Model, "gas")
	ml, ok := govcInt(m.Model, "len(message)")
	if !ok || ml.Sign() < 0 || ml.Int64() > 1<<20 {
		t.Skip("model has no short message")
	}
	message := strings.Repeat("m", int(ml.Int64()))
	fmt.Printf("replay input: data=%x len(message)=%d gas=%d\n", data, len(message), gas)
	defer func() {
		if r := recover(); r != nil {
			fmt.Println("CONTRACT VIOLATED: addTxDataSpendGas panicked:", r)
		}
	}()
	got, err := addTxDataSpendGas(data, message, gas)
	nz := 0
	for _, b := range data {
		if b != 0 {
			nz++
		}
	}
	want := new(big.Int).SetUint64(gas)
	want.Add(want, new(big.Int).Mul(big.NewInt(int64(len(message))), new(big.Int).SetUint64(params.TxMessageGas)))
	want.Add(want, new(big.Int).Mul(big.NewInt(int64(nz)), new(big.Int).SetUint64(params.TxDataNonZeroGas)))
	want.Add(want, new(big.Int).Mul(big.NewInt(int64(len(data)-nz)), new(big.Int).SetUint64(params.TxDataZeroGas)))
	if err == nil && new(big.Int).SetUint64(got).Cmp(want) != 0 {
		fmt.Printf("CONTRACT VIOLATED: addTxDataSpendGas = %d, the exact intrinsic gas is %s\n", got, want)
	}
	if err != nil && got != 0 {
		fmt.Printf("CONTRACT VIOLATED: addTxDataSpendGas = %d with error %v\n", got, err)
	}
	fmt.Println("replay done")
}
