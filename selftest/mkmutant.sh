#!/bin/bash
# usage: mkmutant.sh Cxx name -- command...   (runs the command in /repo, saves the diff as a mutant patch, restores the tree)
# refuses to run unless /repo is clean, so that uncommitted work is never lost
set -e
P=$1; N=$2; shift 3
cd /repo
if [ -n "$(git status --porcelain)" ]; then echo "mkmutant: /repo is not clean, commit first"; exit 2; fi
"$@"
mkdir -p /verif/selftest/mutants/$P
git diff > /verif/selftest/mutants/$P/$N.patch
git checkout -- .
[ -s /verif/selftest/mutants/$P/$N.patch ] || { echo "mkmutant: empty patch $N"; exit 1; }
