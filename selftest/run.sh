#!/bin/bash
# must-fail / must-pass corpus: applies each patch to /repo, runs the property's quick check, reverts.
# usage: selftest/run.sh Cxx [patchname]
set -u
P=$1; only=${2:-}
cd /verif
fail=0
for f in selftest/mutants/$P/*.patch; do
  [ -e "$f" ] || continue
  n=$(basename $f .patch)
  [ -n "$only" ] && [ "$n" != "$only" ] && continue
  if ! git -C /repo apply --check /verif/$f 2>/dev/null; then echo "MUTANT $P/$n: patch does not apply"; fail=1; continue; fi
  git -C /repo apply /verif/$f
  out=$(GOVC_EVIDENCE_DIR=/tmp/govc-selftest-evidence bin/govc check $P --tier quick --no-replay 2>&1); rc=$?
  git -C /repo checkout -- . 
  if echo "$out" | grep -q 'replay/.*/machinery.json'; then echo "MUTANT $P/$n: INVALID (does not build or load: machinery error, not a named obligation)"; fail=1; continue; fi
  if [ $rc -eq 1 ]; then echo "MUTANT $P/$n: caught: $(echo "$out" | grep -m1 '  obligation' | sed 's/  obligation //')"; else echo "MUTANT $P/$n: MISSED (exit $rc)"; fail=1; fi
done
for f in selftest/benign/$P/*.patch; do
  [ -e "$f" ] || continue
  n=$(basename $f .patch)
  [ -n "$only" ] && [ "$n" != "$only" ] && continue
  if ! git -C /repo apply --check /verif/$f 2>/dev/null; then echo "BENIGN $P/$n: patch does not apply"; fail=1; continue; fi
  git -C /repo apply /verif/$f
  out=$(GOVC_EVIDENCE_DIR=/tmp/govc-selftest-evidence bin/govc check $P --tier quick --no-replay 2>&1); rc=$?
  git -C /repo checkout -- .
  if [ $rc -eq 0 ]; then echo "BENIGN $P/$n: passes"; else echo "BENIGN $P/$n: FALSE ALARM: $(echo "$out" | grep -m1 '  obligation')"; fail=1; fi
done
exit $fail
