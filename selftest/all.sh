#!/bin/bash
# runs the quick check of every claimed property on the current /repo tree and refreshes the evidence files
cd /verif
rc=0
for p in $(python3 -c "import json; print(' '.join(c['property_id'] for c in json.load(open('MANIFEST.json'))['checks']))"); do
  out=$(VERIF_SEED=${VERIF_SEED:-0} bin/govc check $p 2>&1); r=$?
  echo "$out" | tail -1
  [ $r -ne 0 ] && { echo "$out" | grep "obligation" | head -5; rc=1; }
done
exit $rc
