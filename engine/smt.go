package main

// SMT-LIB2 term helpers (terms are strings), declaration registry, query emission and the solver portfolio.

import (
	"bytes"
	"context"
	"fmt"
	"math/big"
	"os"
	"os/exec"
	"sort"
	"strings"
	"sync"
	"time"
)

// ---------- term constructors with light folding ----------

func sInt(n int64) string {
	if n < 0 {
		return fmt.Sprintf("(- %d)", -n)
	}
	return fmt.Sprint(n)
}

func sBig(n *big.Int) string {
	if n.Sign() < 0 {
		return "(- " + new(big.Int).Neg(n).String() + ")"
	}
	return n.String()
}

func sAnd(xs ...string) string {
	var ys []string
	for _, x := range xs {
		if x == "true" || x == "" {
			continue
		}
		if x == "false" {
			return "false"
		}
		ys = append(ys, x)
	}
	switch len(ys) {
	case 0:
		return "true"
	case 1:
		return ys[0]
	}
	return "(and " + strings.Join(ys, " ") + ")"
}

func sOr(xs ...string) string {
	var ys []string
	for _, x := range xs {
		if x == "false" || x == "" {
			continue
		}
		if x == "true" {
			return "true"
		}
		ys = append(ys, x)
	}
	switch len(ys) {
	case 0:
		return "false"
	case 1:
		return ys[0]
	}
	return "(or " + strings.Join(ys, " ") + ")"
}

func sNot(x string) string {
	switch x {
	case "true":
		return "false"
	case "false":
		return "true"
	}
	if strings.HasPrefix(x, "(not ") && balancedTail(x[5:len(x)-1]) {
		return x[5 : len(x)-1]
	}
	return "(not " + x + ")"
}

// balancedTail reports whether s is a single balanced term (so "(not s)" can be unwrapped safely)
func balancedTail(s string) bool {
	if s == "" {
		return false
	}
	if s[0] != '(' {
		return !strings.ContainsAny(s, " ()")
	}
	d := 0
	for i, ch := range s {
		if ch == '(' {
			d++
		} else if ch == ')' {
			d--
			if d == 0 && i != len(s)-1 {
				return false
			}
		}
	}
	return d == 0
}

func sImp(a, b string) string {
	if a == "true" {
		return b
	}
	if a == "false" || b == "true" {
		return "true"
	}
	return "(=> " + a + " " + b + ")"
}

func sIte(c, a, b string) string {
	if c == "true" {
		return a
	}
	if c == "false" {
		return b
	}
	if a == b {
		return a
	}
	return "(ite " + c + " " + a + " " + b + ")"
}

func sEq(a, b string) string {
	if a == b {
		return "true"
	}
	if isNumLit(a) && isNumLit(b) {
		return "false"
	}
	// an object allocated by this activation (ref!N > alloc0 > 0) is none of the objects the entry state knows, nor nil
	if isFreshSym(a) && (entryTerm(b) || b == "0") || isFreshSym(b) && (entryTerm(a) || a == "0") {
		return "false"
	}
	return "(= " + a + " " + b + ")"
}

func isFreshSym(t string) bool {
	if !strings.HasPrefix(t, "ref!") {
		return false
	}
	for _, ch := range t[4:] {
		if ch < '0' || ch > '9' {
			return false
		}
	}
	return len(t) > 4
}

// entryTerm: a reference-valued term built only from parameters and reads of the entry heap (base arrays of epoch 0, no fresh
// symbol): it denotes an object that existed at function entry (<= alloc0), as the well-typedness facts state anyway
func entryTerm(t string) bool {
	if t == "" || strings.ContainsAny(t, "!?") {
		return false
	}
	if !strings.HasPrefix(t, "p.") && !strings.HasPrefix(t, "(select ") {
		return false
	}
	for i := 0; i < len(t); i++ {
		if t[i] == '@' {
			if i+1 >= len(t) || t[i+1] != '0' || (i+2 < len(t) && t[i+2] >= '0' && t[i+2] <= '9') {
				return false
			}
		}
	}
	// only selects over base arrays and parameters: no arithmetic, no ite
	for _, w := range []string{"(ite ", "(+ ", "(- ", "(* ", "(store "} {
		if strings.Contains(t, w) {
			return false
		}
	}
	return true
}

func isNumLit(s string) bool {
	if s == "" {
		return false
	}
	if strings.HasPrefix(s, "(- ") && strings.HasSuffix(s, ")") {
		s = s[3 : len(s)-1]
	}
	for _, ch := range s {
		if ch < '0' || ch > '9' {
			return false
		}
	}
	return true
}

func litVal(s string) (*big.Int, bool) {
	if !isNumLit(s) {
		return nil, false
	}
	neg := false
	if strings.HasPrefix(s, "(- ") {
		neg = true
		s = s[3 : len(s)-1]
	}
	n, ok := new(big.Int).SetString(s, 10)
	if !ok {
		return nil, false
	}
	if neg {
		n.Neg(n)
	}
	return n, true
}

func sAdd(a, b string) string {
	if a == "0" {
		return b
	}
	if b == "0" {
		return a
	}
	if x, ok := litVal(a); ok {
		if y, ok := litVal(b); ok {
			return sBig(new(big.Int).Add(x, y))
		}
	}
	// (+ x c1) + c2 and (- x c1) + c2 with literals
	if y, ok := litVal(b); ok && (strings.HasPrefix(a, "(+ ") || strings.HasPrefix(a, "(- ")) && strings.HasSuffix(a, ")") {
		inner := a[3 : len(a)-1]
		if sp := strings.LastIndexByte(inner, ' '); sp > 0 {
			if c, ok := litVal(inner[sp+1:]); ok && balancedTail(inner[:sp]) {
				if a[1] == '-' {
					c = new(big.Int).Neg(c)
				}
				sum := new(big.Int).Add(c, y)
				if sum.Sign() == 0 {
					return inner[:sp]
				}
				if sum.Sign() < 0 {
					return "(- " + inner[:sp] + " " + new(big.Int).Neg(sum).String() + ")"
				}
				return "(+ " + inner[:sp] + " " + sum.String() + ")"
			}
		}
	}
	return "(+ " + a + " " + b + ")"
}

func sSub(a, b string) string {
	if b == "0" {
		return a
	}
	if x, ok := litVal(a); ok {
		if y, ok := litVal(b); ok {
			return sBig(new(big.Int).Sub(x, y))
		}
	}
	if a == b {
		return "0"
	}
	// (+ b x) - b  ==> x
	if strings.HasPrefix(a, "(+ "+b+" ") && strings.HasSuffix(a, ")") {
		rest := a[len("(+ "+b+" ") : len(a)-1]
		if balancedTail(rest) {
			return rest
		}
	}
	// (+ x b) - b ==> x
	if strings.HasPrefix(a, "(+ ") && strings.HasSuffix(a, " "+b+")") {
		rest := a[3 : len(a)-len(b)-2]
		if balancedTail(rest) {
			return rest
		}
	}
	// (+ x c1) - c2 with literals
	if y, ok := litVal(b); ok && strings.HasPrefix(a, "(+ ") && strings.HasSuffix(a, ")") {
		inner := a[3 : len(a)-1]
		if sp := strings.LastIndexByte(inner, ' '); sp > 0 {
			if c, ok := litVal(inner[sp+1:]); ok && balancedTail(inner[:sp]) {
				return sAdd(inner[:sp], sBig(new(big.Int).Sub(c, y)))
			}
		}
	}
	return "(- " + a + " " + b + ")"
}

func sMul(a, b string) string {
	if a == "1" {
		return b
	}
	if b == "1" {
		return a
	}
	if x, ok := litVal(a); ok {
		if y, ok := litVal(b); ok {
			return sBig(new(big.Int).Mul(x, y))
		}
	}
	return "(* " + a + " " + b + ")"
}

func sLe(a, b string) string {
	if x, ok := litVal(a); ok {
		if y, ok := litVal(b); ok {
			if x.Cmp(y) <= 0 {
				return "true"
			}
			return "false"
		}
	}
	if a == b {
		return "true"
	}
	return "(<= " + a + " " + b + ")"
}

func sLt(a, b string) string {
	if x, ok := litVal(a); ok {
		if y, ok := litVal(b); ok {
			if x.Cmp(y) < 0 {
				return "true"
			}
			return "false"
		}
	}
	if a == b {
		return "false"
	}
	return "(< " + a + " " + b + ")"
}

func sSel(a, i string) string    { return "(select " + a + " " + i + ")" }
func sSto(a, i, v string) string { return "(store " + a + " " + i + " " + v + ")" }
func sMin(a, b string) string    { return sIte(sLe(a, b), a, b) }
func sMax(a, b string) string    { return sIte(sLe(a, b), b, a) }
func sBetween(lo, x, hi string) string { // lo <= x < hi
	return sAnd(sLe(lo, x), sLt(x, hi))
}

// sanitize turns an arbitrary string (Go type names etc.) into an SMT simple symbol fragment
func sanitize(s string) string {
	var b strings.Builder
	for _, ch := range s {
		switch {
		case ch >= 'a' && ch <= 'z', ch >= 'A' && ch <= 'Z', ch >= '0' && ch <= '9', ch == '_', ch == '.', ch == '!', ch == '@', ch == '$', ch == '#':
			b.WriteRune(ch)
		case ch == '*':
			b.WriteString("P")
		case ch == '[':
			b.WriteString("L")
		case ch == ']':
			b.WriteString("R")
		case ch == ' ':
		default:
			b.WriteString("_")
		}
	}
	return b.String()
}

// ---------- declaration registry ----------

type Decls struct {
	mu    sync.Mutex
	m     map[string]string // symbol -> declaration line
	fresh int
	// axioms attached to a symbol: emitted whenever the symbol occurs in a query
	ax map[string][]string
	// pattern facts: instantiated at render time for every ground application occurring in the query
	//   "sel1:B"  (select B r)            args [r]
	//   "sel2:B"  (select (select B a) i) args [a i]
	//   "app:f"   (f a1 .. an)            args [a1 .. an]
	pat map[string]func(args []string) string
	// named abbreviations of large ground terms: emitted as define-fun in creation order
	defs   map[string]*defn
	byBody map[string]string
	// per-text caches (the same assertion text recurs in most obligations of a path)
	scanCache map[string][]appRec
	tokCache  map[string][]string
}

var smtBuiltin = map[string]bool{"and": true, "or": true, "not": true, "=": true, "=>": true, "+": true, "-": true, "*": true, "<": true, "<=": true,
	">": true, ">=": true, "ite": true, "store": true, "div": true, "mod": true, "distinct": true, "let": true, "forall": true, "exists": true, "select": true}

type defn struct {
	sort, body string
	ord        int
}

// Define abbreviates a large ground term by a name (define-fun); small terms and terms with bound variables are returned as they are
func (d *Decls) Define(prefix, srt, body string) string {
	if len(body) < 80 || strings.Contains(body, "?") {
		return body
	}
	d.mu.Lock()
	defer d.mu.Unlock()
	if n, ok := d.byBody[srt+"|"+body]; ok {
		return n
	}
	d.fresh++
	n := fmt.Sprintf("%s!%d", sanitize(prefix), d.fresh)
	d.defs[n] = &defn{sort: srt, body: body, ord: d.fresh}
	d.byBody[srt+"|"+body] = n
	d.m[n] = "(define)"
	return n
}

func newDecls() *Decls {
	return &Decls{m: map[string]string{}, ax: map[string][]string{}, pat: map[string]func([]string) string{}, defs: map[string]*defn{}, byBody: map[string]string{}}
}

func (d *Decls) Pat(key string, f func(args []string) string) {
	d.mu.Lock()
	if _, ok := d.pat[key]; !ok {
		d.pat[key] = f
	}
	d.mu.Unlock()
}

// PatAdd conjoins a further fact to the pattern key
func (d *Decls) PatAdd(key string, f func(args []string) string) {
	d.mu.Lock()
	if g, ok := d.pat[key]; ok {
		d.pat[key] = func(args []string) string {
			a, b := g(args), f(args)
			if a == "" {
				a = "true"
			}
			if b == "" {
				b = "true"
			}
			return sAnd(a, b)
		}
	} else {
		d.pat[key] = f
	}
	d.mu.Unlock()
}

// patternFacts scans the texts for ground applications matching registered patterns and returns the instantiated facts
func (d *Decls) patternFacts(texts []string) []string {
	seen := map[string]bool{}
	var out []string
	d.mu.Lock()
	defer d.mu.Unlock()
	if len(d.pat) == 0 {
		return nil
	}
	emit := func(key string, args []string) {
		f, ok := d.pat[key]
		if !ok {
			return
		}
		for _, a := range args {
			if strings.Contains(a, "?") {
				return
			}
		}
		k := key + "|" + strings.Join(args, "|")
		if seen[k] {
			return
		}
		seen[k] = true
		if fact := f(args); fact != "true" && fact != "" {
			out = append(out, fact)
		}
	}
	for _, t := range texts {
		recs, ok := d.scanCache[t]
		if !ok {
			scanApps(t, func(key string, args []string) {
				if strings.HasPrefix(key, "app:") && smtBuiltin[key[4:]] {
					return
				}
				recs = append(recs, appRec{key, args})
			})
			if d.scanCache == nil {
				d.scanCache = map[string][]appRec{}
			}
			d.scanCache[t] = recs
		}
		for _, r := range recs {
			emit(r.key, r.args)
		}
	}
	return out
}

type appRec struct {
	key  string
	args []string
}

// scanApps walks the s-expressions of text and reports pattern keys with argument texts
func scanApps(s string, emit func(key string, args []string)) {
	// iterative parse with a stack of list start positions and child spans
	type frame struct {
		start int
		kids  [][2]int
	}
	var stack []frame
	i := 0
	for i < len(s) {
		ch := s[i]
		switch {
		case ch == '(':
			stack = append(stack, frame{start: i})
			i++
		case ch == ')':
			if len(stack) == 0 {
				i++
				continue
			}
			fr := stack[len(stack)-1]
			stack = stack[:len(stack)-1]
			end := i + 1
			if len(stack) > 0 {
				stack[len(stack)-1].kids = append(stack[len(stack)-1].kids, [2]int{fr.start, end})
			}
			if len(fr.kids) >= 2 {
				head := s[fr.kids[0][0]:fr.kids[0][1]]
				if head == "select" && len(fr.kids) == 3 {
					a1 := s[fr.kids[1][0]:fr.kids[1][1]]
					a2 := s[fr.kids[2][0]:fr.kids[2][1]]
					if a1[0] != '(' {
						emit("sel1:"+a1, []string{a2})
					} else if strings.HasPrefix(a1, "(select ") {
						// (select B a)
						inner := a1[8 : len(a1)-1]
						if sp := strings.IndexByte(inner, ' '); sp > 0 && inner[0] != '(' {
							emit("sel2:"+inner[:sp], []string{inner[sp+1:], a2})
						}
					}
				} else if head[0] != '(' {
					args := make([]string, 0, len(fr.kids)-1)
					for _, k := range fr.kids[1:] {
						args = append(args, s[k[0]:k[1]])
					}
					emit("app:"+head, args)
				}
			}
			i++
		case ch == ' ' || ch == '\n' || ch == '\t':
			i++
		default:
			j := i
			for j < len(s) && s[j] != '(' && s[j] != ')' && s[j] != ' ' && s[j] != '\n' && s[j] != '\t' {
				j++
			}
			if len(stack) > 0 {
				stack[len(stack)-1].kids = append(stack[len(stack)-1].kids, [2]int{i, j})
			}
			i = j
		}
	}
}

func (d *Decls) Const(name, srt string) string {
	d.mu.Lock()
	defer d.mu.Unlock()
	if _, ok := d.m[name]; !ok {
		d.m[name] = fmt.Sprintf("(declare-const %s %s)", name, srt)
	}
	return name
}

func (d *Decls) Fun(name string, args []string, res string) string {
	d.mu.Lock()
	defer d.mu.Unlock()
	if _, ok := d.m[name]; !ok {
		d.m[name] = fmt.Sprintf("(declare-fun %s (%s) %s)", name, strings.Join(args, " "), res)
	}
	return name
}

func (d *Decls) Fresh(prefix, srt string) string {
	d.mu.Lock()
	d.fresh++
	n := fmt.Sprintf("%s!%d", sanitize(prefix), d.fresh)
	d.m[n] = fmt.Sprintf("(declare-const %s %s)", n, srt)
	d.mu.Unlock()
	return n
}

func (d *Decls) Axiom(sym, ax string) {
	d.mu.Lock()
	defer d.mu.Unlock()
	for _, a := range d.ax[sym] {
		if a == ax {
			return
		}
	}
	d.ax[sym] = append(d.ax[sym], ax)
}

// defBodies returns the bodies of all abbreviations reachable from texts
func (d *Decls) defBodies(texts []string) []string {
	var out []string
	for _, s := range d.symbols(texts) {
		d.mu.Lock()
		if df, ok := d.defs[s]; ok {
			out = append(out, df.body)
		}
		d.mu.Unlock()
	}
	return out
}

// symbols returns the declared symbols occurring in the given texts
func (d *Decls) symbols(texts []string) []string {
	seen := map[string]bool{}
	var out []string
	var scan func(s string)
	scan = func(s string) {
		i := 0
		for i < len(s) {
			ch := s[i]
			if ch == '(' || ch == ')' || ch == ' ' || ch == '\n' || ch == '\t' {
				i++
				continue
			}
			j := i
			for j < len(s) && s[j] != '(' && s[j] != ')' && s[j] != ' ' && s[j] != '\n' && s[j] != '\t' {
				j++
			}
			tok := s[i:j]
			i = j
			if seen[tok] {
				continue
			}
			if _, ok := d.m[tok]; ok {
				seen[tok] = true
				out = append(out, tok)
				for _, a := range d.ax[tok] {
					scan(a)
				}
				if df, ok := d.defs[tok]; ok {
					scan(df.body)
				}
			}
		}
	}
	d.mu.Lock()
	if d.tokCache == nil {
		d.tokCache = map[string][]string{}
	}
	for _, t := range texts {
		toks, ok := d.tokCache[t]
		if !ok {
			toks = uniqueTokens(t)
			d.tokCache[t] = toks
		}
		for _, tok := range toks {
			scan(tok)
		}
	}
	d.mu.Unlock()
	sort.Strings(out)
	return out
}

func uniqueTokens(s string) []string {
	seen := map[string]bool{}
	var out []string
	i := 0
	for i < len(s) {
		ch := s[i]
		if ch == '(' || ch == ')' || ch == ' ' || ch == '\n' || ch == '\t' {
			i++
			continue
		}
		j := i
		for j < len(s) && s[j] != '(' && s[j] != ')' && s[j] != ' ' && s[j] != '\n' && s[j] != '\t' {
			j++
		}
		if tok := s[i:j]; !seen[tok] {
			seen[tok] = true
			out = append(out, tok)
		}
		i = j
	}
	return out
}

// ---------- queries ----------

type Query struct {
	Asserts []string // assumptions
	Goal    string   // to be proved (negated in the query); "" means satisfiability check of Asserts (cover)
	Values  []string // terms for get-value when sat
}

const smtPrelude = `(set-option :produce-models true)
(set-logic ALL)
(declare-sort Val 0)
(declare-sort Str 0)
`

func (d *Decls) render(q *Query) string {
	var b bytes.Buffer
	b.WriteString(smtPrelude)
	texts := append([]string{}, q.Asserts...)
	texts = append(texts, q.Goal)
	texts = append(texts, q.Values...)
	// bodies of the abbreviations used (transitively) take part in pattern matching
	texts = append(texts, d.defBodies(texts)...)
	facts := d.patternFacts(texts)
	// facts may mention sibling terms (slice headers): one more round
	facts2 := d.patternFacts(facts)
	have := map[string]bool{}
	for _, f := range facts {
		have[f] = true
	}
	for _, f := range facts2 {
		if !have[f] {
			have[f] = true
			facts = append(facts, f)
		}
	}
	texts = append(texts, facts...)
	syms := d.symbols(texts)
	d.mu.Lock()
	// sorts first (declare-sort lines are stored in m too under their own name)
	var axs []string
	seenAx := map[string]bool{}
	for _, s := range syms {
		if strings.HasPrefix(d.m[s], "(declare-sort") {
			b.WriteString(d.m[s] + "\n")
		}
	}
	var dnames []string
	for _, s := range syms {
		if _, isDef := d.defs[s]; isDef {
			dnames = append(dnames, s)
			continue
		}
		if !strings.HasPrefix(d.m[s], "(declare-sort") {
			b.WriteString(d.m[s] + "\n")
		}
		for _, a := range d.ax[s] {
			if !seenAx[a] {
				seenAx[a] = true
				axs = append(axs, a)
			}
		}
	}
	sort.Slice(dnames, func(i, j int) bool { return d.defs[dnames[i]].ord < d.defs[dnames[j]].ord })
	for _, n := range dnames {
		df := d.defs[n]
		b.WriteString("(define-fun " + n + " () " + df.sort + " " + df.body + ")\n")
	}
	d.mu.Unlock()
	for _, a := range axs {
		b.WriteString("(assert " + a + ")\n")
	}
	for _, a := range facts {
		b.WriteString("(assert " + a + ")\n")
	}
	for _, a := range q.Asserts {
		if a == "true" {
			continue
		}
		b.WriteString("(assert " + a + ")\n")
	}
	if q.Goal != "" {
		b.WriteString("(assert (not " + q.Goal + "))\n")
	}
	b.WriteString("(check-sat)\n")
	if len(q.Values) > 0 {
		b.WriteString("(get-value (" + strings.Join(q.Values, " ") + "))\n")
	}
	return b.String()
}

type SolveResult struct {
	Status    string // unsat | sat | unknown | timeout | error
	Solver    string
	Secs      float64
	Output    string
	Tried     []string
	Candidate bool
}

type solverSpec struct {
	name string
	args func(timeoutMs int, seed int) []string
}

var solvers = []solverSpec{
	{"z3-new", func(t, seed int) []string {
		return []string{fmt.Sprintf("-t:%d", t), fmt.Sprintf("smt.random_seed=%d", seed), fmt.Sprintf("sat.random_seed=%d", seed)}
	}},
	{"cvc5", func(t, seed int) []string {
		return []string{fmt.Sprintf("--tlimit=%d", t), fmt.Sprintf("--seed=%d", seed), "--arrays-exp"}
	}},
	{"z3", func(t, seed int) []string {
		return []string{fmt.Sprintf("-t:%d", t), fmt.Sprintf("smt.random_seed=%d", seed), fmt.Sprintf("sat.random_seed=%d", seed)}
	}},
}

var (
	crossCheck   = false // thorough tier: confirm every unsat with a second solver
	solverSeed   = 0
	solverStatMu sync.Mutex
	solverStats  = map[string]*struct {
		N    int
		Secs float64
	}{}
)

func runSolver(ctx context.Context, sp solverSpec, file string, timeoutMs int) SolveResult {
	t0 := time.Now()
	cctx, cancel := context.WithTimeout(ctx, time.Duration(timeoutMs+1500)*time.Millisecond)
	defer cancel()
	cmd := exec.CommandContext(cctx, sp.name, append(sp.args(timeoutMs, solverSeed), file)...)
	out, _ := cmd.CombinedOutput()
	secs := time.Since(t0).Seconds()
	first := strings.TrimSpace(strings.SplitN(string(out), "\n", 2)[0])
	st := "unknown"
	switch {
	case strings.Contains(string(out), "(error") && !strings.Contains(string(out), "model is not available") && !strings.Contains(string(out), "Cannot get value"):
		st = "error"
		if os.Getenv("GOVC_DEBUG") != "" {
			fmt.Fprintln(os.Stderr, "solver error:", sp.name, truncate(string(out), 300))
		}
	case first == "unsat" || first == "sat":
		st = first
	case strings.Contains(first, "timeout") || cctx.Err() != nil:
		st = "timeout"
	case first == "unknown":
		st = "unknown"
	case strings.HasPrefix(first, "(error") || strings.Contains(first, "rror"):
		st = "error"
	}
	return SolveResult{Status: st, Solver: sp.name, Secs: secs, Output: string(out)}
}

func runSolverPlain(sp solverSpec, file string, timeoutMs int) SolveResult {
	return runSolver(context.Background(), sp, file, timeoutMs)
}

// solve runs the portfolio: z3-new alone for a short first slice, then all three in parallel.
// want restricts which definite answers end the race ("" = any of sat/unsat).
func solveText(text string, timeoutMs int) SolveResult {
	f, err := os.CreateTemp("", "govc-*.smt2")
	if err != nil {
		return SolveResult{Status: "error", Output: err.Error()}
	}
	f.WriteString(text)
	f.Close()
	defer os.Remove(f.Name())
	var tried []string
	record := func(r SolveResult) {
		solverStatMu.Lock()
		s := solverStats[r.Solver]
		if s == nil {
			s = &struct {
				N    int
				Secs float64
			}{}
			solverStats[r.Solver] = s
		}
		s.N++
		s.Secs += r.Secs
		solverStatMu.Unlock()
		tried = append(tried, fmt.Sprintf("%s:%s:%.2fs", r.Solver, r.Status, r.Secs))
	}
	first := 1500
	if first > timeoutMs {
		first = timeoutMs
	}
	// thorough tier: an `unsat` (obligation proved) is put to a second, independently developed solver; a `sat` there is a
	// disagreement between the solvers and the obligation does not count as discharged
	confirm := func(r SolveResult) SolveResult {
		if !crossCheck || r.Status != "unsat" {
			return r
		}
		other := solvers[1] // cvc5
		if r.Solver == "cvc5" {
			other = solvers[0]
		}
		c := runSolver(context.Background(), other, f.Name(), 8000)
		record(c)
		switch c.Status {
		case "unsat":
			r.Solver = r.Solver + "+" + c.Solver + "(confirmed)"
		case "sat":
			r.Status = "disagree"
			r.Output = "solver disagreement: " + r.Solver + " answered unsat, " + c.Solver + " answered sat\n" + c.Output
		}
		return r
	}
	r := runSolver(context.Background(), solvers[0], f.Name(), first)
	record(r)
	if r.Status == "sat" || r.Status == "unsat" {
		r = confirm(r)
		r.Tried = tried
		return r
	}
	ctx, cancel := context.WithCancel(context.Background())
	defer cancel()
	ch := make(chan SolveResult, len(solvers))
	for _, sp := range solvers {
		go func(sp solverSpec) { ch <- runSolver(ctx, sp, f.Name(), timeoutMs) }(sp)
	}
	var last SolveResult
	total := 0.0
	for range solvers {
		x := <-ch
		record(x)
		total += x.Secs
		if x.Status == "sat" || x.Status == "unsat" {
			cancel()
			x = confirm(x)
			x.Tried = tried
			return x
		}
		if last.Status == "" || x.Status == "timeout" {
			last = x
		}
	}
	last.Tried = tried
	last.Solver = "none"
	return last
}

// parseValues parses "((t v) (t v) ...)" output of get-value into the value strings in order.
func parseValues(out string) []string {
	i := strings.Index(out, "((")
	if i < 0 {
		return nil
	}
	s := out[i:]
	// split top-level pairs
	var res []string
	depth := 0
	start := -1
	for k := 0; k < len(s); k++ {
		switch s[k] {
		case '(':
			depth++
			if depth == 2 {
				start = k
			}
		case ')':
			if depth == 2 && start >= 0 {
				pair := s[start+1 : k]
				res = append(res, lastTerm(pair))
				start = -1
			}
			depth--
			if depth == 0 {
				return res
			}
		}
	}
	return res
}

// lastTerm returns the last balanced term of "term value"
func lastTerm(pair string) string {
	pair = strings.TrimSpace(pair)
	if pair == "" {
		return ""
	}
	if pair[len(pair)-1] != ')' {
		j := strings.LastIndexAny(pair, " \n\t)")
		return pair[j+1:]
	}
	d := 0
	for k := len(pair) - 1; k >= 0; k-- {
		if pair[k] == ')' {
			d++
		} else if pair[k] == '(' {
			d--
			if d == 0 {
				return pair[k:]
			}
		}
	}
	return pair
}
