package main

// Contract application at call sites, function verification driver, obligation discharge.

import (
	"fmt"
	"go/ast"
	"go/token"
	"go/types"
	"os"
	"sort"
	"strconv"
	"strings"
	"sync"
	"time"

	"golang.org/x/tools/go/ssa"
)

func sortStrings(s []string) { sort.Strings(s) }

// ---------- binding helpers ----------

func (x *Exec) bindArgs(sig *types.Signature, args []Val) map[string]Val {
	names := map[string]Val{}
	i := 0
	if sig.Recv() == nil && len(args) == sig.Params().Len()+1 {
		// interface method called with its receiver prepended
		names["recv"] = args[0]
		i = 1
	}
	if sig.Recv() != nil {
		if len(args) > 0 {
			n := sig.Recv().Name()
			if n == "" || n == "_" {
				n = "recv"
			}
			names[n] = args[0]
			names["recv"] = args[0]
		}
		i = 1
	}
	for j := 0; j < sig.Params().Len(); j++ {
		if i+j < len(args) {
			n := sig.Params().At(j).Name()
			if n == "" || n == "_" {
				n = fmt.Sprintf("arg%d", j)
			}
			names[n] = args[i+j]
			names[fmt.Sprintf("arg%d", j)] = args[i+j]
		}
	}
	return names
}

func (x *Exec) bindResults(names map[string]Val, sig *types.Signature, res Val) {
	n := sig.Results().Len()
	switch n {
	case 0:
		return
	case 1:
		names["result"] = res
		names["result0"] = res
		if nm := sig.Results().At(0).Name(); nm != "" && nm != "_" {
			names[nm] = res
		}
		return
	}
	if res.K != KTuple {
		return
	}
	for i := 0; i < n && i < len(res.Fs); i++ {
		names[fmt.Sprintf("result%d", i)] = res.Fs[i]
		if nm := sig.Results().At(i).Name(); nm != "" && nm != "_" {
			names[nm] = res.Fs[i]
		}
	}
	names["result"] = res.Fs[0]
}

// trustPre: is the call label among the comma-separated call sites of `opt trust-pre=`?
func trustPre(opt, lbl string) bool {
	for _, t := range strings.Split(opt, ",") {
		if t = strings.TrimSpace(t); t != "" && "call:"+t == lbl {
			return true
		}
	}
	return false
}

// aliasRenamed: contracts name parameters and named results.  When the code renames one of them, exactly one signature name is
// not mentioned by the contract and exactly one identifier of the contract resolves to nothing: the old name then denotes the
// renamed parameter (recorded as a note).  Anything less clear-cut is left alone and fails as an unknown identifier.
func (x *Exec) aliasRenamed(con *Contract, sig *types.Signature, names map[string]Val) {
	if con == nil || sig == nil {
		return
	}
	if !con.aliasDone {
		con.aliasDone = true
		con.alias = map[string]string{}
		var sigNames []string
		add := func(v *types.Var) {
			if v != nil && v.Name() != "" && v.Name() != "_" {
				sigNames = append(sigNames, v.Name())
			}
		}
		add(sig.Recv())
		for i := 0; i < sig.Params().Len(); i++ {
			add(sig.Params().At(i))
		}
		for i := 0; i < sig.Results().Len(); i++ {
			add(sig.Results().At(i))
		}
		inSig := map[string]bool{}
		var unmentioned []string
		for _, n := range sigNames {
			inSig[n] = true
			if !con.mentions(n) {
				unmentioned = append(unmentioned, n)
			}
		}
		if len(unmentioned) == 1 {
			locals := map[string]bool{}
			if fn := x.eng.findFunc(con.Key); fn != nil {
				for _, b := range fn.Blocks {
					for _, in := range b.Instrs {
						switch v := in.(type) {
						case *ssa.DebugRef:
							if id, ok := v.Expr.(*ast.Ident); ok {
								locals[id.Name] = true
							}
						case *ssa.Alloc:
							locals[v.Comment] = true
						case *ssa.Phi:
							locals[v.Comment] = true
						}
					}
				}
			}
			tp := x.eng.typesPkg(con.Pkg)
			var missing []string
			for n := range con.freeIdents(true) {
				if inSig[n] || locals[n] || specBuiltinNames[n] || strings.HasPrefix(n, "__") || strings.HasPrefix(n, "result") || strings.HasPrefix(n, "arg") {
					continue
				}
				switch n {
				case "nil", "true", "false", "recv", "all", "nothing", "_":
					continue
				}
				isLet := false
				for _, l := range con.Lets {
					if l.Name == n {
						isLet = true
					}
				}
				for _, pi := range con.Pre {
					if pi.Let == n {
						isLet = true
					}
				}
				for _, g := range con.Ghost {
					if g.Name == n {
						isLet = true
					}
				}
				if isLet || types.Universe.Lookup(n) != nil || x.eng.resolvePkgName(con.Pkg, n) != "" {
					continue
				}
				if tp != nil && tp.Scope().Lookup(n) != nil {
					continue
				}
				if x.eng.cs.Specs[con.Pkg+"."+n] != nil || x.eng.cs.Specs["."+n] != nil {
					continue
				}
				missing = append(missing, n)
			}
			if len(missing) == 1 {
				con.alias[missing[0]] = unmentioned[0]
			}
		}
	}
	for old, cur := range con.alias {
		if v, ok := names[cur]; ok {
			if _, taken := names[old]; !taken {
				names[old] = v
				x.note(fmt.Sprintf("contract of %s: the name %q is not in the signature any more; it is taken to be the renamed parameter/result %q (the only one the contract does not mention)", con.Key, old, cur))
			}
		}
	}
}

func (x *Exec) evalLets(env *SpecEnv, con *Contract) {
	for _, l := range con.Lets {
		env.names[l.Name] = env.eval(l.C.Expr)
	}
}

// ---------- spec checks inside the verified function ----------

func (x *Exec) specEnvHere(fr *Frame, st *State, extra map[string]Val) *SpecEnv {
	e := x.specEnvAt(fr, st, fr.pre, extra)
	e.curParams = true
	return e
}

func (x *Exec) withSpecErr(where string, f func()) {
	defer func() {
		if e := recover(); e != nil {
			if se, ok := e.(specErr); ok {
				o := oos("%s: %s", where, se.msg)
				o.rebindable = se.rebindable
				panic(o)
			}
			panic(e)
		}
	}()
	f()
}

func (x *Exec) specCheck(fr *Frame, st *State, name, kind string, c Clause, extra map[string]Val, in ssa.Instruction) {
	x.withSpecErr(c.Where, func() {
		env := x.specEnvHere(fr, st, extra)
		f := env.evalBool(c.Expr).formula()
		x.proveF(fr, st, name, kind, f, in)
		x.assumeF(st, f)
	})
}

func (x *Exec) specCheckNoAssume(fr *Frame, st *State, name, kind string, c Clause, in ssa.Instruction) {
	x.withSpecErr(c.Where, func() {
		env := x.specEnvHere(fr, st, nil)
		f := env.evalBool(c.Expr).formula()
		x.proveF(fr, st, name, kind, f, in)
	})
}

func (x *Exec) specAssume(fr *Frame, st *State, c Clause) {
	x.withSpecErr(c.Where, func() {
		env := x.specEnvHere(fr, st, nil)
		x.assumeF(st, env.evalBool(c.Expr).formula())
	})
}

// evalLenient evaluates a postcondition; if it mentions a local variable of the function that does not exist on this path
// (the path returned before the variable was defined) the clause is skipped for this path and the fact is noted
func (x *Exec) evalLenient(fr *Frame, env *SpecEnv, c Clause) (f *F, skipped bool) {
	defer func() {
		if e := recover(); e != nil {
			if se, ok := e.(specErr); ok && strings.Contains(se.msg, "unknown identifier") {
				name := se.msg[strings.Index(se.msg, "\"")+1:]
				name = name[:strings.Index(name, "\"")]
				if x.isLocalOf(fr.fn, name) {
					x.note("postcondition at " + c.Where + " is not checked on paths that return before local '" + name + "' is defined")
					skipped = true
					return
				}
			}
			panic(e)
		}
	}()
	return env.evalBool(c.Expr).formula(), false
}

func (x *Exec) isLocalOf(fn *ssa.Function, name string) bool {
	for _, b := range fn.Blocks {
		for _, in := range b.Instrs {
			if d, ok := in.(*ssa.DebugRef); ok && d.Object() != nil && d.Object().Name() == name {
				if vr, isVar := d.Object().(*types.Var); isVar && !vr.IsField() {
					return true
				}
			}
		}
	}
	return false
}

// applyUses assumes the lemma instances declared with `use` for this program point; a use that mentions a local variable
// which does not exist on this path is skipped
func (x *Exec) applyUses(fr *Frame, st *State, env *SpecEnv, at string) {
	if fr.con == nil {
		return
	}
	for _, u := range fr.con.Uses {
		if u.At != at {
			continue
		}
		func() {
			defer func() {
				if e := recover(); e != nil {
					if se, ok := e.(specErr); ok && strings.Contains(se.msg, "unknown identifier") {
						return
					}
					panic(e)
				}
			}()
			x.assumeF(st, env.evalBool(u.C.Expr).formula())
		}()
	}
}

// contractMayRetain: can the callee store a reference it is handed?  Not if all it may modify are numbers (val(x)) and ghost
// arrays (which hold integers), as the math/big contracts and the ghost account model declare.
func contractMayRetain(con *Contract) bool {
	if con.Pure {
		return false
	}
	return true
}

// typeHoldsRef: can a value of this type contain a reference to a heap object?
func typeHoldsRef(t types.Type) bool {
	if t == nil {
		return true
	}
	if t == mathInt || isBigInt(t) {
		return false
	}
	switch u := t.Underlying().(type) {
	case *types.Basic:
		return u.Kind() == types.UnsafePointer
	case *types.Struct:
		for i := 0; i < u.NumFields(); i++ {
			if typeHoldsRef(u.Field(i).Type()) {
				return true
			}
		}
		return false
	case *types.Array:
		return typeHoldsRef(u.Elem())
	}
	return true
}

func locHoldsRef(l Loc) bool {
	switch l.kind {
	case "field", "cell", "obj":
		return typeHoldsRef(l.t)
	case "elems":
		if sl, ok := l.sl.T.Underlying().(*types.Slice); ok {
			return typeHoldsRef(sl.Elem())
		}
		return true
	case "bigval", "ghost", "ghostall":
		return false
	case "map":
		if mt, ok := l.t.Underlying().(*types.Map); ok {
			return typeHoldsRef(mt.Key()) || typeHoldsRef(mt.Elem())
		}
	}
	return true
}

func topConjuncts(e ast.Expr) []ast.Expr {
	switch v := e.(type) {
	case *ast.ParenExpr:
		return topConjuncts(v.X)
	case *ast.BinaryExpr:
		if v.Op == token.LAND {
			return append(topConjuncts(v.X), topConjuncts(v.Y)...)
		}
	}
	return []ast.Expr{e}
}

// ---------- modifies: locations ----------

type Loc struct {
	kind string // field | obj | elems | bigval | map | ghost | all | cell
	key  string
	ref  string
	t    types.Type
	sl   Val
	keep []string // allbut: key prefixes that are NOT modified
}

func (e *SpecEnv) evalLoc(m ast.Expr) []Loc {
	x := e.x
	switch n := m.(type) {
	case *ast.ParenExpr:
		return e.evalLoc(n.X)
	case *ast.Ident:
		if n.Name == "all" {
			return []Loc{{kind: "all"}}
		}
		if _, ok := e.st.ghost[n.Name]; ok {
			return []Loc{{kind: "ghost", key: n.Name}}
		}
		sfail("modifies: %s is not a location", n.Name)
	case *ast.SelectorExpr:
		base, isGlobal := e.globalStructRef(n.X)
		if !isGlobal {
			base = e.eval(n.X)
		}
		if base.K != KRef {
			sfail("modifies: base of %s is not a pointer", exprString(m))
		}
		pt, ok := base.T.Underlying().(*types.Pointer)
		if !ok {
			sfail("modifies: %s: not a pointer type", exprString(m))
		}
		stt, ok := pt.Elem().Underlying().(*types.Struct)
		if !ok {
			sfail("modifies: %s: not a struct", exprString(m))
		}
		for i := 0; i < stt.NumFields(); i++ {
			if stt.Field(i).Name() == n.Sel.Name {
				a := x.fieldAddr(e.st, base.S, pt.Elem(), i)
				if a.K == KRef {
					return []Loc{{kind: "obj", ref: a.S, t: stt.Field(i).Type()}}
				}
				return []Loc{{kind: "field", key: a.A.Key, ref: base.S, t: a.A.T}}
			}
		}
		sfail("modifies: no field %s", n.Sel.Name)
	case *ast.StarExpr:
		p := e.eval(n.X)
		if p.K != KRef {
			sfail("modifies: *%s: not a pointer", exprString(n.X))
		}
		pt, ok := p.T.Underlying().(*types.Pointer)
		if !ok {
			sfail("modifies: *%s: not a pointer type", exprString(n.X))
		}
		if kindOf(pt.Elem()) == KStruct {
			return []Loc{{kind: "obj", ref: p.S, t: pt.Elem()}}
		}
		return []Loc{{kind: "cell", key: cellKey(pt.Elem()), ref: p.S, t: pt.Elem()}}
	case *ast.CallExpr:
		id, _ := n.Fun.(*ast.Ident)
		if id != nil && id.Name == "allbut" {
			return []Loc{{kind: "allbut", keep: x.keepPrefixes(e.pkg, n.Args)}}
		}
		if id != nil && len(n.Args) == 1 {
			switch id.Name {
			case "val":
				a := e.eval(n.Args[0])
				return []Loc{{kind: "bigval", ref: a.S}}
			case "ghall":
				lit, ok := n.Args[0].(*ast.BasicLit)
				if !ok {
					sfail("modifies: ghall(\"name\")")
				}
				nm, _ := strconv.Unquote(lit.Value)
				return []Loc{{kind: "ghostall", key: "G." + nm}}
			case "elems":
				a := e.eval(n.Args[0])
				if a.K != KSlice {
					sfail("modifies: elems() of non-slice")
				}
				return []Loc{{kind: "elems", sl: a}}
			case "entries":
				a := e.eval(n.Args[0])
				return []Loc{{kind: "map", ref: a.S, t: a.T}}
			case "held":
				return nil
			}
		}
		if id != nil && id.Name == "gh" && len(n.Args) == 2 {
			lit, ok := n.Args[0].(*ast.BasicLit)
			if !ok {
				sfail("modifies: gh(\"name\", key)")
			}
			nm, _ := strconv.Unquote(lit.Value)
			k := e.eval(n.Args[1])
			return []Loc{{kind: "cell", key: "G." + nm, ref: k.S, t: mathInt}}
		}
	}
	sfail("modifies: unsupported location %s", exprString(m))
	return nil
}

// keepPrefixes: heap-key prefixes named by the arguments of allbut(...): a struct type (its fields), a slice type (its elements),
// or a package name (its variables)
func (x *Exec) keepPrefixes(pkg string, args []ast.Expr) []string {
	var out []string
	for _, a := range args {
		if lit, ok := a.(*ast.BasicLit); ok && lit.Kind == token.STRING {
			// a ghost array
			nm, _ := strconv.Unquote(lit.Value)
			out = append(out, "G."+nm)
			continue
		}
		if t := x.eng.resolveType(pkg, a); t != nil {
			switch u := t.Underlying().(type) {
			case *types.Struct:
				out = append(out, "H."+typeName(t)+".")
			case *types.Slice:
				out = append(out, elemKey(u.Elem()))
			case *types.Map:
				// every map of this type keeps its entries
				out = append(out, "MD."+typeName(t), "MV."+typeName(t), "ML."+typeName(t))
			case *types.Basic:
				// the cells behind pointers to values of this (underlying) type
				out = append(out, cellKey(t))
			default:
				sfail("modifies allbut: unsupported type %s", exprString(a))
			}
			continue
		}
		if sel, ok := a.(*ast.SelectorExpr); ok {
			// Type.field / pkg.Type.field: one field of a struct type
			if t := x.eng.resolveType(pkg, sel.X); t != nil {
				if _, isStruct := t.Underlying().(*types.Struct); isStruct {
					out = append(out, fieldKey(t, sanitize(sel.Sel.Name)))
					continue
				}
			}
		}
		if id, ok := a.(*ast.Ident); ok {
			if ps := x.eng.resolvePkgName(pkg, id.Name); ps != "" {
				out = append(out, "G."+sanitize(ps)+".")
				continue
			}
		}
		sfail("modifies allbut: %s is neither a type nor a package", exprString(a))
	}
	return out
}

func keptKey(keep []string, key string) bool {
	for _, p := range keep {
		if strings.HasPrefix(key, p) {
			if strings.HasPrefix(p, "E.") {
				// element keys: exact match up to the component suffix
				if stripComp(key) != p {
					continue
				}
			}
			return true
		}
	}
	return false
}

func (x *Exec) havocLoc(st *State, l Loc) {
	switch l.kind {
	case "all":
		x.havocAll(st)
	case "allbut":
		x.havocAllBut(st, l.keep)
	case "ghostall":
		x.havocKey(st, l.key, mathInt)
	case "field", "cell":
		if l.t == mathInt {
			x.writeComps(st, l.key, l.t, l.ref, Val{K: KInt, S: x.decls.Fresh("ghv", "Int")})
			return
		}
		fv := x.freshVal(st, l.t, "mod")
		x.writeComps(st, l.key, l.t, l.ref, fv)
	case "obj":
		stt := l.t.Underlying().(*types.Struct)
		for i := 0; i < stt.NumFields(); i++ {
			a := x.fieldAddr(st, l.ref, l.t, i)
			if a.K == KRef {
				x.havocLoc(st, Loc{kind: "obj", ref: a.S, t: stt.Field(i).Type()})
			} else {
				x.writeComps(st, a.A.Key, a.A.T, l.ref, x.freshVal(st, a.A.T, "mod"))
			}
		}
	case "bigval":
		x.setBigval(st, l.ref, x.decls.Fresh("bigv", "Int"))
	case "elems":
		et := l.sl.T.Underlying().(*types.Slice).Elem()
		lz := x.lazyFor(st, et)
		cs := comps(et)
		hv := make([]string, len(cs))
		for i, c := range cs {
			hv[i] = x.decls.Fresh("modelems", "(Array Int (Array Int "+c.Sort+"))")
		}
		x.elemBaseFacts(hv, cs, "")
		lz.ups = append(lz.ups, Upd{arr: l.sl.Arr, lo: l.sl.Off, n: l.sl.Len, havoc: hv})
		st.hv++
	case "map":
		mt := l.t.Underlying().(*types.Map)
		ks := mapKeySort(mt)
		d := x.mapDom(st, l.t)
		d.write(l.ref, x.decls.Fresh("moddom", "(Array "+ks+" Bool)"))
		for _, c := range comps(mt.Elem()) {
			a := x.mapValArr(st, l.t, c)
			a.write(l.ref, x.decls.Fresh("modval", "(Array "+ks+" "+c.Sort+")"))
		}
		ln := x.decls.Fresh("modlen", "Int")
		x.decls.Axiom(ln, sAnd(sLe("0", ln), sLe(ln, capLimit)))
		x.mapLenArr(st, l.t).write(l.ref, ln)
		st.hv++
	case "ghost":
		g := st.ghost[l.key]
		st.ghost[l.key] = x.freshVal(st, g.T, "ghost."+l.key)
	}
}

// ---------- contract application at a call site ----------

func (x *Exec) applyContract(fr *Frame, st *State, in ssa.Instruction, con *Contract, sig *types.Signature, key string, args []Val, invoke bool, k func(st *State, res Val)) {
	con.used = true
	if !con.Pure && !(con.HasMod && len(con.Modifies) == 0) {
		// a callee that writes memory may store the references it is handed
		for _, a := range args {
			for _, t := range flatten(a) {
				if strings.Contains(t, "ref!") {
					st.escaped = true
				}
			}
		}
	}
	if con.Trusted {
		x.note("assumed contract: " + key)
	}
	lbl := "call"
	if in != nil {
		lbl = x.label(fr.fn, in, "call")
	}
	var res Val
	retain := true
	x.withSpecErr(con.Where, func() {
		names := x.bindArgs(sig, args)
		x.aliasRenamed(con, sig, names)
		env := &SpecEnv{x: x, fr: fr, st: st, old: st, names: names, pkg: con.Pkg, depth: 1}
		i := 0
		for _, p := range con.Pre {
			if p.Let != "" {
				env.names[p.Let] = env.eval(p.C.Expr)
				continue
			}
			f := env.evalBool(p.C.Expr).formula()
			if fr.depth == 0 && fr.con != nil && trustPre(fr.con.Opts["trust-pre"], lbl) {
				// opt trust-pre=Callee#k: the precondition of this one call is an assumption of the caller's contract (listed)
				x.note("precondition " + strconv.Itoa(i) + " of " + key + " at " + lbl + " in " + x.key + " is assumed (opt trust-pre)")
			} else {
				x.proveF(fr, st, fmt.Sprintf("%s.pre[%d]", lbl, i), "precondition", f, in)
			}
			x.assumeF(st, f)
			i++
		}
		for i, p := range con.PanicsIf {
			f := &F{Op: "not", Kids: []*F{env.evalBool(p.Expr).formula()}}
			if fr.nopanic {
				x.proveF(fr, st, fmt.Sprintf("%s.nopanic[%d]", lbl, i), "panic", f, in)
			}
			x.assumeF(st, f)
		}
		if con.Pure {
			var fn *ssa.Function
			if !invoke {
				fn = x.eng.findFunc(key)
			}
			res = x.pureApp(fr, st, key, con, sig, args, fn, true, nil)
			return
		}
		snap := st.snapshot()
		// havoc the frame
		if !con.HasMod && !con.Trusted {
			x.note("contract without modifies clause: " + key + " (heap havoced at call sites)")
			x.havocAllCall(st, args)
		} else {
			var locs []Loc
			for _, m := range con.Modifies {
				locs = append(locs, env.evalLoc(m.Expr)...)
			}
			// the callee may allocate: the new contents of the modified locations are bounded by the allocation watermark AFTER
			// the call (bounding them by the watermark before it contradicts postconditions such as fresh(x.f))
			if con.HasMod {
				// a callee that may only write locations which cannot hold a reference cannot keep one it is handed
				retain = false
				for _, l := range locs {
					if locHoldsRef(l) {
						retain = true
					}
				}
			}
			if retain {
				for _, a := range args {
					st.markEscaping(flatten(a))
				}
			}
			x.bumpAlloc(st)
			x.semKeep = true
			for _, l := range locs {
				x.havocLoc(st, l)
			}
			x.semKeep = false
		}
		res = x.freshResult(st, resultType(sig), "res."+sanitize(key))
		// a pointer handed back by the callee is none of this activation's objects that never left it
		if retain && contractMayRetain(con) {
			for _, a := range args {
				st.markEscaping(flatten(a))
			}
		}
		for i, c := range compsOf(resultType(sig)) {
			if (c.K == KRef && c.Role == "") || c.Role == "arr" {
				rt := flatten(res)
				if i >= len(rt) {
					break
				}
				for _, f := range st.freshList {
					if st.escRefs[f] {
						continue
					}
					handed := false // the callee may hand back what it was handed in this call
					for _, a := range args {
						for _, t := range flatten(a) {
							if strings.Contains(t, f) {
								handed = true
							}
						}
					}
					if !handed {
						st.assume(sNot(sEq(rt[i], f)))
					}
				}
			}
		}
		x.bindResults(names, sig, res)
		x.aliasRenamed(con, sig, names)
		env2 := &SpecEnv{x: x, fr: fr, st: st, old: snap, names: names, pkg: con.Pkg, depth: 1}
		for _, en := range con.Ensures {
			if f, ok := env2.evalCallerSide(en); ok {
				x.assumeF(st, f)
			}
		}
		// lock effects declared as ensures held(...)/!held(...) are applied by assumption on symbolic held flags: not modelled;
		// contracts state lock requirements in requires only.
	})
	k(st, res)
}

// ---------- verifying one function against its contract ----------

type FuncResult struct {
	Key        string
	Where      string
	Instrs     int
	Paths      int
	Obs        []*Oblig
	OOS        string // out-of-subset reason ("" if fine)
	rebindable string // OOS is an unknown local name inside a loop invariant
	Notes      []string
	Side       struct{ Asked, Proved int }
	NoWrap     map[string]bool
	decls      *Decls
	x          *Exec
}

// verifyFunc generates the obligations of one function.  Loop invariants name local variables of the code; when such a name no
// longer exists (a harmless rename of a local), the invariant is tried with each local of the function that the contract does
// not mention in its place.  This is sound: an invariant is proved (established, preserved) before it is used, whatever it says;
// preconditions, postconditions and assert clauses -- which carry meaning -- are never re-bound.
func (eng *Engine) verifyFunc(key string, con *Contract, bound int) (res *FuncResult) {
	eng.rebind = nil
	res = eng.verifyFunc0(key, con, bound)
	if res.rebindable != "" {
		if r, rb := eng.searchRebind(key, con, bound, res, map[string]string{}, 0); r != nil {
			for from, to := range rb {
				r.Notes = append(r.Notes, fmt.Sprintf("loop invariant of %s: the name %q is not a local of the code any more; proved with local %q in its place (renamed local)", key, from, to))
			}
			sort.Strings(r.Notes)
			res = r
		}
	}
	eng.rebind = nil
	return res
}

// searchRebind: depth-first search for an assignment of the invariant names that no longer exist to locals the contract does not
// mention; r is the result under the assignment rb (with an unknown name left).  Returns a result without unknown names, chosen
// by proof when several assignments are well-typed.
func (eng *Engine) searchRebind(key string, con *Contract, bound int, r *FuncResult, rb map[string]string, depth int) (*FuncResult, map[string]string) {
	if depth >= 4 {
		return nil, nil
	}
	name := r.rebindable
	// only names that no precondition, postcondition or frame clause uses: those clauses carry meaning in terms of the signature.
	// (`result`/`resultN` in a postcondition denote the function's results, never a local of that name.)  In-body assert clauses
	// speak about locals by nature: a renamed local is re-bound there too, and the proof of every obligation decides.
	if !strings.HasPrefix(name, "result") && con.freeIdents(true)[name] {
		return nil, nil
	}
	type cand struct {
		r  *FuncResult
		rb map[string]string
	}
	var good []cand
	eng.rebind = rb
	cands := eng.rebindCandidates(key, con, name)
	if os.Getenv("GOVC_DEBUG_REBIND") != "" {
		fmt.Fprintf(os.Stderr, "rebind %s: missing %q under %v: candidates %v\n", key, name, rb, cands)
	}
	for _, c := range cands {
		rb2 := map[string]string{}
		for k, v := range rb {
			rb2[k] = v
		}
		rb2[name] = c
		eng.rebind = rb2
		r2 := eng.tryVerifyFunc0(key, con, bound)
		if os.Getenv("GOVC_DEBUG_REBIND") != "" {
			fmt.Fprintf(os.Stderr, "  try %v: oos=%q rebindable=%q\n", rb2, r2.OOS, r2.rebindable)
		}
		if r2.OOS == "" {
			good = append(good, cand{r2, rb2})
		} else if r2.rebindable != "" && r2.rebindable != name {
			if _, again := rb2[r2.rebindable]; !again {
				if r3, rb3 := eng.searchRebind(key, con, bound, r2, rb2, depth+1); r3 != nil {
					good = append(good, cand{r3, rb3})
				}
			}
		}
		if len(good) > 6 {
			break
		}
	}
	eng.rebind = rb
	if len(good) == 1 {
		return good[0].r, good[0].rb
	}
	for _, g := range good {
		// several locals fit by type: the proof decides
		if g.r.Obs != nil && g.r.Obs[0].Res.Status == "" {
			g.r.discharge(timeoutFor("quick"), workers())
		}
		if g.r.allDischarged() {
			return g.r, g.rb
		}
	}
	// no assignment proves everything (the function may carry an obligation that fails for its own reason, e.g. an open known
	// finding): take the assignment under which the fewest obligations fail, so what is reported is a named obligation and not
	// a missing name.  Any well-typed assignment is sound -- the re-bound clauses are proof scaffolding, each is itself proved.
	best, bestN := -1, 0
	for i, g := range good {
		if n := g.r.undischarged(); best < 0 || n < bestN {
			best, bestN = i, n
		}
	}
	if best >= 0 {
		return good[best].r, good[best].rb
	}
	return nil, nil
}

// undischarged counts the obligation names that are not proved
func (r *FuncResult) undischarged() int {
	bad := map[string]bool{}
	alive := map[string]bool{}
	for _, o := range r.Obs {
		if (o.Cover || o.Canary) && o.Res.Status != "unsat" {
			alive[o.Name] = true
		}
	}
	for _, o := range r.Obs {
		if o.Cover || o.Canary {
			if !alive[o.Name] {
				bad[o.Name] = true
			}
		} else if o.Res.Status != "unsat" {
			bad[o.Name] = true
		}
	}
	return len(bad)
}

// tryVerifyFunc0: a trial with a candidate binding; a binding of the wrong type may trip the evaluator in any way
func (eng *Engine) tryVerifyFunc0(key string, con *Contract, bound int) (res *FuncResult) {
	defer func() {
		if e := recover(); e != nil {
			res = &FuncResult{Key: key, Where: con.Where, OOS: fmt.Sprintf("candidate binding does not fit: %v", e)}
		}
	}()
	return eng.verifyFunc0(key, con, bound)
}

// rebindCandidates: named locals of the function (debug names of SSA values) that the contract text does not mention
func (eng *Engine) rebindCandidates(key string, con *Contract, missing string) []string {
	fn := eng.findFunc(key)
	if fn == nil {
		return nil
	}
	seen := map[string]bool{}
	var out []string
	add := func(n string) {
		if n == "" || seen[n] || n == missing || strings.ContainsAny(n, " .$#") {
			return
		}
		seen[n] = true
		if con.mentions(n) {
			return
		}
		for _, v := range eng.rebind {
			if v == n {
				return
			}
		}
		out = append(out, n)
	}
	// loop-carried values first (what invariants usually speak about)
	for _, b := range fn.Blocks {
		for _, in := range b.Instrs {
			if ph, ok := in.(*ssa.Phi); ok {
				add(ph.Comment)
			}
		}
	}
	for _, b := range fn.Blocks {
		for _, in := range b.Instrs {
			switch v := in.(type) {
			case *ssa.DebugRef:
				if id, ok := v.Expr.(*ast.Ident); ok {
					if tv, isVar := v.Object().(*types.Var); isVar && !tv.IsField() {
						add(id.Name)
					}
				}
			}
		}
	}
	return out
}

// allDischarged: every obligation proved, every vacuity guard alive
func (r *FuncResult) allDischarged() bool {
	alive := map[string]bool{}
	for _, o := range r.Obs {
		if (o.Cover || o.Canary) && o.Res.Status != "unsat" {
			alive[o.Name] = true
		}
	}
	for _, o := range r.Obs {
		if o.Cover || o.Canary {
			if !alive[o.Name] {
				return false
			}
		} else if o.Res.Status != "unsat" {
			return false
		}
	}
	return true
}

func (eng *Engine) verifyFunc0(key string, con *Contract, bound int) (res *FuncResult) {
	fn := eng.findFunc(key)
	res = &FuncResult{Key: key, Where: con.Where}
	if fn == nil || fn.Blocks == nil {
		// contract-target-present obligation fails
		x := newExec(eng, nil, con, key, bound)
		o := &Oblig{Name: key + "#contract-target-present", Kind: "target", Fn: key, Goal: atom("false")}
		res.Obs = []*Oblig{o}
		res.decls = x.decls
		res.x = x
		if fn != nil && con.Trusted {
			res.Obs = nil
		}
		return res
	}
	x := newExec(eng, fn, con, key, bound)
	res.decls = x.decls
	res.x = x
	for _, b := range fn.Blocks {
		res.Instrs += len(b.Instrs)
	}
	defer func() {
		if e := recover(); e != nil {
			switch err := e.(type) {
			case oosErr:
				res.OOS = err.msg
				res.rebindable = err.rebindable
			case specErr:
				res.OOS = "spec error: " + err.msg
				res.rebindable = err.rebindable
			default:
				panic(e)
			}
			res.Obs = append(x.obs, &Oblig{Name: key + "#in-subset", Kind: "subset", Fn: key, Goal: atom("false"), Where: res.OOS})
		}
		res.Paths = x.paths
		for n := range x.notes {
			res.Notes = append(res.Notes, n)
		}
		sort.Strings(res.Notes)
		res.Side.Asked, res.Side.Proved = x.sideStats.asked, x.sideStats.proved
		res.NoWrap = x.noWrapRec
	}()
	x.run()
	res.Obs = x.obs
	return res
}

func (x *Exec) run() {
	fn, con := x.fn, x.con
	st := &State{env: map[ssa.Value]Val{}, heap: map[string]*HArr{}, lazy: map[string]*Lazy{}, held: map[string]string{}, ghost: map[string]Val{},
		visited: map[ssa.Value]string{}, dbg: map[string]Val{}, dbgAddr: map[string]Val{}, applied: map[string]bool{}, qfSeen: map[string]bool{}}
	x.alloc0 = x.decls.Const("alloc0", "Int")
	x.decls.Axiom("alloc0", "(< 0 alloc0)")
	st.alloc = x.alloc0
	st.epochAlloc = x.alloc0
	st.defers = [][]Deferred{nil}
	fr := &Frame{fn: fn, con: con, names: map[string]Val{}, nopanic: con.NoPanic}
	for _, p := range fn.Params {
		v := x.namedVal(st, p.Type(), "p."+p.Name())
		st.env[p] = v
		fr.names[p.Name()] = v
		x.recordModelTerm(p.Name(), v)
	}
	x.aliasRenamed(con, fn.Signature, fr.names)
	if len(fn.FreeVars) > 0 {
		panic(oos("function with free variables cannot carry a contract"))
	}
	for _, g := range con.Ghost {
		t := x.eng.resolveType(con.Pkg, g.Type)
		if t == nil {
			panic(oos("cannot resolve ghost type for %s", g.Name))
		}
		st.ghost[g.Name] = x.namedVal(st, t, "ghost."+g.Name)
	}
	x.withSpecErr(con.Where, func() {
		env := x.specEnvAt(fr, st, st, nil)
		x.noWD = true // well-definedness of the function's own precondition is the callers' obligation
		for _, p := range con.Pre {
			if p.Let != "" {
				env.names[p.Let] = env.eval(p.C.Expr)
				continue
			}
			// lock state is not heap: a top-level conjunct held(l) / rheld(l) of the precondition sets the entry lock state
			// (the default at entry is "nothing held", which `requires !held(l)` merely confirms)
			for _, cj := range topConjuncts(p.C.Expr) {
				if ce, ok := cj.(*ast.CallExpr); ok && len(ce.Args) == 1 {
					if id, ok := ce.Fun.(*ast.Ident); ok && (id.Name == "held" || id.Name == "rheld") {
						k := lockKeyOf(env.evalAddr(ce.Args[0]))
						if id.Name == "held" {
							st.held["W:"+k] = "true"
						} else {
							st.held["R:"+k] = "true"
						}
					}
				}
			}
			x.assumeF(st, env.evalBool(p.C.Expr).formula())
		}
		x.noWD = false
		for k, v := range env.names {
			fr.names[k] = v
			x.recordModelTerm(k, v)
		}
		// callers establish the negation of every panics_if condition only if they are nopanic; the function itself may assume nothing
	})
	fr.pre = st.snapshot()
	// vacuity guard: the preconditions are satisfiable
	cov := x.emit(fr, st, "cover:requires", "cover", atom("false"), nil)
	cov.Cover = true
	// canary: an obligation that must be refuted
	fr.ret = func(st2 *State, rs []Val) {
		x.endPath()
		x.atReturn(fr, st2, rs)
	}
	x.block(fr, st, fn.Blocks[0], nil)
}

func (x *Exec) atReturn(fr *Frame, st *State, rs []Val) {
	con := fr.con
	sig := fr.fn.Signature
	var res Val
	switch len(rs) {
	case 0:
		res = Val{K: KTuple, T: types.NewTuple()}
	case 1:
		res = rs[0]
	default:
		res = Val{K: KTuple, T: sig.Results(), Fs: rs}
	}
	names := map[string]Val{}
	x.bindResults(names, sig, res)
	x.aliasRenamed(con, sig, names)
	ret := lastReturn(fr.fn)
	x.withSpecErr(con.Where, func() {
		env := x.specEnvAt(fr, st, fr.pre, names)
		x.applyUses(fr, st, env, "return")
		for i, e := range con.Ensures {
			if e.Group != "" && e.Group != x.view {
				continue // proved in its own view
			}
			f, skipped := x.evalLenient(fr, env, e)
			if skipped {
				continue
			}
			x.proveF(fr, st, fmt.Sprintf("ensures[%d]", i), "ensures", f, ret)
			// later postconditions may rely on earlier ones (each is proved under the same path condition)
			x.assumeF(st, f)
		}
		// lock balance: exported entry points must release what they took
		for k, h := range st.held {
			if strings.HasPrefix(k, "A:") {
				continue // acquisition marks of `opt atomic`
			}
			pre := "false"
			if p, ok := fr.pre.held[k]; ok {
				pre = p
			}
			if h != pre {
				x.emit(fr, st, "lock-balance:"+lockName(k), "lock", atom(sEq(h, pre)), ret)
			}
		}
		if con.HasMod && con.Opts["assume-frame"] == "" {
			x.checkFrame(fr, st, env)
		} else if con.HasMod {
			x.note("frame (modifies clause) of " + x.key + " is assumed, not checked (opt assume-frame)")
		}
	})
	c := x.emit(fr, st, "canary:ensures-false", "canary", atom("false"), ret)
	c.Canary = true
}

func lockName(k string) string {
	if len(k) > 40 {
		return fmt.Sprintf("%s..", k[:40])
	}
	return k
}

func lastReturn(fn *ssa.Function) ssa.Instruction {
	for i := len(fn.Blocks) - 1; i >= 0; i-- {
		b := fn.Blocks[i]
		if len(b.Instrs) > 0 {
			if r, ok := b.Instrs[len(b.Instrs)-1].(*ssa.Return); ok {
				return r
			}
		}
	}
	return nil
}

// checkFrame: every heap key whose content changed must be covered by the modifies clause (for pre-existing objects)
func (x *Exec) checkFrame(fr *Frame, st *State, env *SpecEnv) {
	con := fr.con
	preEnv := x.specEnvAt(fr, fr.pre.snapshot(), fr.pre, nil)
	var locs []Loc
	for _, m := range con.Modifies {
		locs = append(locs, preEnv.evalLoc(m.Expr)...)
	}
	var keepOnly []string
	for _, l := range locs {
		if l.kind == "all" {
			return
		}
		if l.kind == "allbut" {
			keepOnly = l.keep
		}
	}
	keys := make([]string, 0, len(st.heap))
	for k := range st.heap {
		keys = append(keys, k)
	}
	sort.Strings(keys)
	for _, k := range keys {
		h := st.heap[k]
		if keepOnly != nil && !keptKey(keepOnly, k) {
			continue
		}
		if strings.HasPrefix(k, "C.") || strings.HasPrefix(k, "MD.") || strings.HasPrefix(k, "MV.") || strings.HasPrefix(k, "ML.") {
			// cells of locals are fresh; map contents are checked per map ref below
		}
		var pre *HArr
		if p, ok := fr.pre.heap[k]; ok {
			pre = p
		}
		if pre != nil && pre.base == h.base && len(pre.ups) == len(h.ups) {
			continue
		}
		if pre == nil && len(h.ups) == 0 {
			continue
		}
		r := x.decls.Fresh("fr.ref", "Int")
		var excl []string
		excl = append(excl, sLe(r, x.alloc0)) // only pre-existing objects matter
		bk := stripComp(k)
		for _, l := range locs {
			switch l.kind {
			case "field", "cell":
				if l.key == bk {
					excl = append(excl, sNot(sEq(r, l.ref)))
				}
			case "obj":
				for _, fk := range x.objKeys(st, l.ref, l.t) {
					if fk[0] == bk {
						excl = append(excl, sNot(sEq(r, fk[1])))
					}
				}
			case "bigval":
				if bk == "G.bigval" {
					excl = append(excl, sNot(sEq(r, l.ref)))
				}
			case "map":
				if strings.HasSuffix(bk, "."+typeName(l.t)) || strings.Contains(bk, "."+typeName(l.t)) {
					excl = append(excl, sNot(sEq(r, l.ref)))
				}
			}
		}
		var preRead string
		if pre != nil {
			preRead = pre.read(r)
		} else {
			// first touched after entry: the pre-state value is the (epoch 0) base
			preRead = sSel(x.baseNameFor(k, h.sort), r)
		}
		s2 := st.clone()
		s2.assume(sAnd(excl...))
		x.emit(fr, s2, "frame:"+k, "frame", atom(sEq(h.read(r), preRead)), lastReturn(fr.fn))
	}
	// element stores
	lkeys := make([]string, 0, len(st.lazy))
	for k := range st.lazy {
		lkeys = append(lkeys, k)
	}
	sort.Strings(lkeys)
	for _, k := range lkeys {
		l := st.lazy[k]
		var pre *Lazy
		if p, ok := fr.pre.lazy[k]; ok {
			pre = p
		}
		if pre != nil && len(pre.ups) == len(l.ups) && sameBases(pre.base, l.base) {
			continue
		}
		if pre == nil && len(l.ups) == 0 {
			continue
		}
		a := x.decls.Fresh("fr.arr", "Int")
		i := x.decls.Fresh("fr.idx", "Int")
		excl := []string{sLe(a, x.alloc0), sLt("0", a)}
		for _, lc := range locs {
			if lc.kind == "elems" && elemKey(lc.sl.T.Underlying().(*types.Slice).Elem()) == k {
				excl = append(excl, sNot(sAnd(sEq(a, lc.sl.Arr), sLe(lc.sl.Off, i), sLt(i, sAdd(lc.sl.Off, lc.sl.Len)))))
			}
		}
		var preRead []string
		if pre != nil {
			preRead = pre.read(a, i)
		} else {
			preRead = make([]string, len(l.base))
			for c := range l.base {
				preRead[c] = sSel(sSel(l.base[c], a), i)
			}
		}
		now := l.read(a, i)
		var eqs []string
		for c := range now {
			eqs = append(eqs, sEq(now[c], preRead[c]))
		}
		s2 := st.clone()
		s2.assume(sAnd(excl...))
		x.emit(fr, s2, "frame:"+k, "frame", atom(sAnd(eqs...)), lastReturn(fr.fn))
	}
}

func sameBases(a, b []string) bool {
	if len(a) != len(b) {
		return false
	}
	for i := range a {
		if a[i] != b[i] {
			return false
		}
	}
	return true
}

func (x *Exec) baseNameFor(k, srt string) string {
	base := fmt.Sprintf("%s@%d", sanitize(k), 0)
	x.decls.Const(base, "(Array Int "+srt+")")
	return base
}

// objKeys lists (key, ref) pairs of all scalar fields of the object at ref (following sub-objects)
func (x *Exec) objKeys(st *State, ref string, t types.Type) [][2]string {
	var out [][2]string
	stt := t.Underlying().(*types.Struct)
	for i := 0; i < stt.NumFields(); i++ {
		a := x.fieldAddr(st, ref, t, i)
		if a.K == KRef {
			out = append(out, x.objKeys(st, a.S, stt.Field(i).Type())...)
		} else {
			out = append(out, [2]string{a.A.Key, ref})
		}
	}
	return out
}

// ---------- lemmas ----------

func (eng *Engine) verifyLemma(con *Contract, bound int) *FuncResult {
	res := &FuncResult{Key: con.Key, Where: con.Where}
	x := newExec(eng, nil, con, con.Key, bound)
	res.decls = x.decls
	res.x = x
	defer func() {
		if e := recover(); e != nil {
			switch err := e.(type) {
			case oosErr:
				res.OOS = err.msg
			case specErr:
				res.OOS = "spec error: " + err.msg
			default:
				panic(e)
			}
			res.Obs = append(x.obs, &Oblig{Name: con.Key + "#well-formed", Kind: "subset", Fn: con.Key, Goal: atom("false"), Where: res.OOS})
		}
		for n := range x.notes {
			res.Notes = append(res.Notes, n)
		}
	}()
	st := &State{env: map[ssa.Value]Val{}, heap: map[string]*HArr{}, lazy: map[string]*Lazy{}, held: map[string]string{}, ghost: map[string]Val{},
		visited: map[ssa.Value]string{}, dbg: map[string]Val{}, dbgAddr: map[string]Val{}, applied: map[string]bool{}, qfSeen: map[string]bool{}}
	x.alloc0 = x.decls.Const("alloc0", "Int")
	st.alloc = x.alloc0
	st.epochAlloc = x.alloc0
	fr := &Frame{con: con, names: map[string]Val{}}
	for _, p := range con.Params {
		t := eng.resolveType(con.Pkg, p.Type)
		if t == nil {
			panic(oos("lemma %s: cannot resolve type of %s", con.Key, p.Name))
		}
		if t == mathInt {
			fr.names[p.Name] = Val{K: KInt, T: types.Typ[types.UntypedInt], S: x.decls.Const("l."+p.Name, "Int")}
		} else {
			fr.names[p.Name] = x.namedVal(st, t, "l."+p.Name)
		}
		x.recordModelTerm(p.Name, fr.names[p.Name])
		if v := fr.names[p.Name]; v.K == KInt {
			st.addIdx(v.S)
		}
	}
	env := x.specEnvAt(fr, st, st, nil)
	for _, p := range con.Pre {
		if p.Let != "" {
			env.names[p.Let] = env.eval(p.C.Expr)
			fr.names[p.Let] = env.names[p.Let]
			x.recordModelTerm(p.Let, env.names[p.Let])
			continue
		}
		x.assumeF(st, env.evalBool(p.C.Expr).formula())
	}
	fr.pre = st
	cov := x.emit(fr, st, "cover:requires", "cover", atom("false"), nil)
	cov.Cover = true
	for i, e := range con.Ensures {
		x.proveF(fr, st, fmt.Sprintf("ensures[%d]", i), "lemma", env.evalBool(e.Expr).formula(), nil)
	}
	c := x.emit(fr, st, "canary:ensures-false", "canary", atom("false"), nil)
	c.Canary = true
	res.Obs = x.obs
	return res
}

// ---------- discharging ----------

// extTerms: the path's index terms (absolute index, sequence), +-1 of the first few sequence terms, and 0
func (x *Exec) extTerms(idx []IdxT) []IdxT {
	var ext []IdxT
	seen := map[IdxT]bool{}
	hasSeq := map[string]bool{}
	for _, t := range idx {
		if t.Seq != "" {
			hasSeq[t.T] = true
		}
	}
	add := func(t IdxT) {
		if t.Seq == "" && hasSeq[t.T] {
			return
		}
		if !seen[t] && t.T != "" {
			seen[t] = true
			ext = append(ext, t)
		}
	}
	for _, t := range idx {
		add(t)
	}
	// neighbours (+-1) of short sequence terms only: loop counters and skolem witnesses
	n := 0
	for _, t := range idx {
		if n < 8 && t.Seq != "" && len(t.T) < 120 && !strings.Contains(t.T, "ite") {
			n++
			add(IdxT{sSub(t.T, "1"), t.Seq})
			add(IdxT{sAdd(t.T, "1"), t.Seq})
		}
	}
	for _, t := range idx {
		if t.Seq == "" && strings.HasPrefix(t.T, "sk.") {
			seen[IdxT{sSub(t.T, "1"), ""}] = false
			ext = append(ext, IdxT{sSub(t.T, "1"), ""}, IdxT{sAdd(t.T, "1"), ""})
		}
	}
	add(IdxT{"0", ""})
	if len(ext) > 200 {
		ext = ext[:200]
	}
	return ext
}

func (x *Exec) buildQuery(o *Oblig) *Query {
	q := &Query{}
	o.hasQ = false
	ext := x.extTerms(o.Idx)
	x.curKeys = o.Keys
	if os.Getenv("GOVC_DEBUG_IDX") != "" && strings.Contains(o.Name, os.Getenv("GOVC_DEBUG_IDX")) {
		for _, t := range ext {
			fmt.Fprintf(os.Stderr, "IDX %s  @ %s\n", truncate(t.T, 80), truncate(t.Seq, 60))
		}
		fmt.Fprintln(os.Stderr, "---")
	}
	for _, it := range o.PC {
		if it.QF != nil {
			o.hasQ = true
			var out []string
			x.instantiate(it.QF, ext, 0, &out)
			q.Asserts = append(q.Asserts, out...)
			continue
		}
		q.Asserts = append(q.Asserts, it.F)
	}
	if o.Cover {
		q.Goal = ""
	} else {
		q.Goal = render(o.Goal)
	}
	if len(x.sideFacts) > 0 {
		// contract instances of pure applications that occur in this query (two rounds: a fact may mention another application)
		have := map[string]bool{}
		for round := 0; round < 2; round++ {
			text := strings.Join(q.Asserts, " ") + " " + q.Goal
			for trig, facts := range x.sideFacts {
				if have[trig] || !strings.Contains(text, trig) {
					continue
				}
				have[trig] = true
				q.Asserts = append(q.Asserts, facts...)
			}
		}
	}
	if len(x.errGlobals) > 0 {
		var gs []string
		for g := range x.errGlobals {
			gs = append(gs, g)
		}
		sort.Strings(gs)
		q.Asserts = append(q.Asserts, "(distinct 0 "+strings.Join(gs, " ")+")")
	}
	q.Values = o.Values
	return q
}

var keepDir = os.Getenv("GOVC_KEEP")

func (res *FuncResult) discharge(timeoutMs int, workers int) {
	dischargeAll([]*FuncResult{res}, timeoutMs, workers)
}

// dischargeAll solves the obligations of all results with one worker pool
func dischargeAll(results []*FuncResult, timeoutMs int, workers int) {
	var wg sync.WaitGroup
	sem := make(chan struct{}, workers)
	type job struct {
		text  string
		obs   []*Oblig
		first *Oblig
		res   *FuncResult
		r     SolveResult
	}
	var jobs []*job
	tBuild := time.Now()
	// vacuity canaries pass as soon as one returning path has a model: try the shortest, the median and the longest path first and
	// the remaining ones only if all three are proved contradictory
	deferred := map[*Oblig]bool{}
	var later []*FuncResult
	for _, res := range results {
		groups := map[string][]*Oblig{}
		for _, o := range res.Obs {
			if o.Canary && o.raw == "" {
				groups[o.Name] = append(groups[o.Name], o)
			}
		}
		for _, g := range groups {
			if len(g) <= 3 {
				continue
			}
			sorted := append([]*Oblig{}, g...)
			sort.SliceStable(sorted, func(i, j int) bool { return len(sorted[i].PC) < len(sorted[j].PC) })
			pick := map[*Oblig]bool{sorted[0]: true, sorted[len(sorted)/2]: true, sorted[len(sorted)-1]: true}
			for _, o := range g {
				if !pick[o] {
					deferred[o] = true
					o.Res = SolveResult{Status: "skipped", Solver: "none", Output: "not needed: vacuity guard decided on other paths"}
				}
			}
			later = append(later, res)
		}
	}
	defer func() {
		// second round for canary groups whose sampled paths were all proved contradictory
		var again []*Oblig
		for _, res := range later {
			groups := map[string][]*Oblig{}
			for _, o := range res.Obs {
				if o.Canary {
					groups[o.Name] = append(groups[o.Name], o)
				}
			}
			for _, g := range groups {
				allUnsat, any := true, false
				for _, o := range g {
					if deferred[o] {
						any = true
						continue
					}
					if o.Res.Status != "unsat" {
						allUnsat = false
					}
				}
				if allUnsat && any {
					for _, o := range g {
						if deferred[o] {
							again = append(again, o)
						}
					}
				}
			}
		}
		if len(again) == 0 {
			return
		}
		var wg2 sync.WaitGroup
		for _, o := range again {
			var owner *FuncResult
			for _, res := range later {
				for _, q := range res.Obs {
					if q == o {
						owner = res
					}
				}
			}
			owner.x.withQ = false
			text := owner.decls.render(owner.x.buildQuery(o))
			wg2.Add(1)
			sem <- struct{}{}
			go func(o *Oblig, text string) {
				defer wg2.Done()
				defer func() { <-sem }()
				o.Res = solveText(text, 4000)
			}(o, text)
		}
		wg2.Wait()
	}()
	var buildMu sync.Mutex // query construction shares the declaration registry: one at a time
	launch := func(j *job) {
		wg.Add(1)
		sem <- struct{}{}
		go func() {
			defer wg.Done()
			defer func() { <-sem }()
			// first attempt: quantified assumptions replaced by their instances (quantifier-free); a proof here is a proof
			first := j.first
			cover := first.Cover || first.Canary
			tmo := timeoutMs
			if first.timeout > tmo {
				tmo = first.timeout
			}
			if cover && tmo > 4000 {
				tmo = 4000
			}
			r := solveText(j.text, tmo)
			if r.Status != "unsat" && first.hasQ && first.raw == "" && !cover {
				// second attempt with the quantified assumptions themselves
				buildMu.Lock()
				j.res.x.withQ = true
				text2 := j.res.decls.render(j.res.x.buildQuery(first))
				j.res.x.withQ = false
				buildMu.Unlock()
				r2 := solveText(text2, timeoutMs)
				r2.Secs += r.Secs
				if r2.Status == "unsat" || r2.Status == "sat" {
					r = r2
				} else if r.Status == "sat" {
					// only the weakened query has a model: a candidate, not a refutation
					r = SolveResult{Status: "unknown", Solver: r.Solver, Secs: r2.Secs, Output: "candidate model of the instantiated (weakened) query only\n" + r.Output}
					r.Candidate = true
				} else {
					r.Secs = r2.Secs
				}
			}
			j.r = r
			if keepDir != "" {
				sfx := ""
				if j.res.x.bound >= 0 {
					sfx = ".r1"
				}
				os.WriteFile(fmt.Sprintf("%s/%s%s.smt2", keepDir, sanitize(first.Name), sfx), []byte(j.text), 0644)
			}
		}()
	}
	for _, res := range results {
		byText := map[string]*job{}
		for _, o := range res.Obs {
			if deferred[o] {
				continue
			}
			if o.Kind == "subset" || o.Kind == "target" {
				o.Res = SolveResult{Status: "sat", Solver: "none", Output: o.Where}
				continue
			}
			if o.raw != "" {
				j := &job{text: o.raw, obs: []*Oblig{o}, first: o, res: res}
				jobs = append(jobs, j)
				launch(j)
				continue
			}
			buildMu.Lock()
			res.x.withQ = false
			text := res.decls.render(res.x.buildQuery(o))
			buildMu.Unlock()
			if j, ok := byText[text]; ok {
				j.obs = append(j.obs, o)
				continue
			}
			j := &job{text: text, obs: []*Oblig{o}, first: o, res: res}
			byText[text] = j
			jobs = append(jobs, j)
			launch(j)
		}
	}
	if os.Getenv("GOVC_DEBUG") != "" {
		fmt.Fprintf(os.Stderr, "discharge: %d jobs built in %.2fs\n", len(jobs), time.Since(tBuild).Seconds())
	}
	wg.Wait()
	for _, j := range jobs {
		for _, o := range j.obs {
			o.Res = j.r
		}
	}
}

// solveSide: quick synchronous check used during symbolic execution (no-wrap etc.): true iff unsat within a short budget
func solveSide(text string) bool {
	f, err := os.CreateTemp("", "govc-side-*.smt2")
	if err != nil {
		return false
	}
	f.WriteString(text)
	f.Close()
	defer os.Remove(f.Name())
	r := runSolverPlain(solvers[0], f.Name(), 800)
	if r.Status == "unsat" {
		return true
	}
	if r.Status == "sat" {
		return false
	}
	r = runSolverPlain(solvers[1], f.Name(), 800)
	return r.Status == "unsat"
}
