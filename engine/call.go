package main

// Calls: builtins, locks, contracts (modular), inlining, unknown callees (frame inference), defers, loop heads.

import (
	"fmt"
	"go/ast"
	"go/token"
	"go/types"
	"os"
	"sort"
	"strconv"
	"strings"

	"golang.org/x/tools/go/ssa"
)

// functions whose calls have no effect on modelled state (T1/T2); results are fresh values
func noEffectCallee(name string) bool {
	for _, p := range []string{
		"/common/log.", "fmt.", "(*strings.Builder)", "strings.", "strconv.", "errors.New", "/metrics.", "(*github.com/rcrowley/go-metrics",
		"(github.com/rcrowley/go-metrics", "time.Now", "time.Since", "(time.Time).", "(time.Duration).", "runtime.", "os.Getenv", "rcrowley/go-metrics", "regexp.", "(*regexp.Regexp)", "encoding/json.Marshal",
		"encoding/hex.", "/common/hexutil.Encode", "unicode", "math/rand.", "sync/atomic.Load", "(*sync.WaitGroup)", "reflect.TypeOf",
		"(reflect.Type)", "(*reflect.rtype)", "sort.Search", "bytes.Compare", "bytes.Equal", "bytes.HasPrefix", "math.Ceil", "math.Floor",
		"/common.ToHex", "/common.Bytes2Hex", "/common.FromHex", "/common.BytesToAddress", "/common.BytesToHash", "/common.HexToAddress", "/common.HexToHash",
	} {
		if strings.Contains(name, p) {
			return true
		}
	}
	if strings.HasSuffix(name, ".String") || strings.HasSuffix(name, ".Hex") || strings.HasSuffix(name, ".Prefix") || strings.HasSuffix(name, ".Error") || strings.HasSuffix(name, ".GoString") {
		return true
	}
	return false
}

type Effects struct {
	all  bool
	keys map[string]types.Type
	// when all is set because of "modifies allbut(...)" clauses only: the key prefixes every one of them spares
	keep    []string
	allBare bool // some contributor modifies everything without exception
}

func newEffects() *Effects { return &Effects{keys: map[string]types.Type{}} }

// setAll: everything may be modified, without exception
func (e *Effects) setAll() { e.all, e.allBare, e.keep = true, true, nil }

func (e *Effects) add(o *Effects) {
	if o.all {
		switch {
		case o.allBare || len(o.keep) == 0:
			e.allBare, e.keep = true, nil
		case e.allBare:
		case !e.all:
			e.keep = append([]string{}, o.keep...)
		default:
			// intersection of the spared prefixes
			var both []string
			for _, p := range e.keep {
				for _, q := range o.keep {
					if p == q {
						both = append(both, p)
					}
				}
			}
			e.keep = both
			if len(both) == 0 {
				e.allBare = true
			}
		}
		e.all = true // (merged above)
	}
	for k, t := range o.keys {
		e.keys[k] = t
	}
}

// ---------- frame inference (syntactic, transitive) ----------

func (x *Exec) frameOf(fn *ssa.Function, visiting map[*ssa.Function]bool) *Effects {
	if e, ok := x.eng.frames[fn]; ok {
		return e
	}
	e := newEffects()
	if visiting[fn] {
		return e
	}
	if fn.Blocks == nil {
		if con := x.eng.cs.Funcs[x.eng.fnKey(fn)]; con != nil {
			return x.contractEffects(con, fn.Signature)
		}
		if noEffectCallee(fn.String()) {
			return e
		}
		e.setAll()
		return e
	}
	visiting[fn] = true
	for _, b := range fn.Blocks {
		e.add(x.blockEffects(fn, b, visiting))
	}
	delete(visiting, fn)
	for _, af := range fn.AnonFuncs {
		_ = af // closures are accounted for where they are called; conservatively include them
		e.add(x.frameOf(af, visiting))
	}
	if len(visiting) == 0 {
		x.eng.frames[fn] = e
	}
	return e
}

func (x *Exec) blockEffects(fn *ssa.Function, b *ssa.BasicBlock, visiting map[*ssa.Function]bool) *Effects {
	e := newEffects()
	for _, in := range b.Instrs {
		switch v := in.(type) {
		case *ssa.Store:
			x.addrEffect(e, v.Addr)
		case *ssa.MapUpdate:
			mt := v.Map.Type()
			e.keys["MD."+typeName(mt)] = mt
		case *ssa.Call:
			e.add(x.callEffects(&v.Call, visiting))
		case *ssa.Defer:
			e.add(x.callEffects(&v.Call, visiting))
		case *ssa.Send, *ssa.Select:
			e.setAll()
		}
	}
	return e
}

func (x *Exec) addrEffect(e *Effects, addr ssa.Value) {
	switch a := addr.(type) {
	case *ssa.FieldAddr:
		owner := a.X.Type().Underlying().(*types.Pointer).Elem()
		f := owner.Underlying().(*types.Struct).Field(a.Field)
		if kindOf(f.Type()) == KStruct {
			x.structEffect(e, f.Type())
			return
		}
		e.keys[fieldKey(owner, sanitize(f.Name()))] = f.Type()
		return
	case *ssa.IndexAddr:
		switch t := a.X.Type().Underlying().(type) {
		case *types.Slice:
			e.keys[elemKey(t.Elem())] = t.Elem()
			return
		case *types.Pointer:
			if at, ok := t.Elem().Underlying().(*types.Array); ok {
				// element of an array: either local storage or an array-valued location
				e.keys[elemKey(at.Elem())] = at.Elem()
				x.addrEffect(e, a.X)
				return
			}
		}
	case *ssa.Alloc:
		// local variable: not visible to callers unless it escapes; escaping locals are fresh objects
		return
	case *ssa.Global:
		et := a.Type().(*types.Pointer).Elem()
		pk := ""
		if a.Pkg != nil {
			pk = x.eng.pkgSuffix(a.Pkg.Pkg.Path())
		}
		if kindOf(et) == KStruct {
			x.structEffect(e, et)
			return
		}
		e.keys["G."+sanitize(pk)+"."+a.Name()] = et
		return
	}
	// generic pointer: by pointee type
	if pt, ok := addr.Type().Underlying().(*types.Pointer); ok {
		et := pt.Elem()
		if kindOf(et) == KStruct {
			x.structEffect(e, et)
			return
		}
		if _, isArr := et.Underlying().(*types.Array); isArr {
			e.setAll()
			return
		}
		e.keys[cellKey(et)] = et
		return
	}
	e.setAll()
}

func (x *Exec) structEffect(e *Effects, t types.Type) {
	stt := t.Underlying().(*types.Struct)
	for i := 0; i < stt.NumFields(); i++ {
		f := stt.Field(i)
		if kindOf(f.Type()) == KStruct {
			x.structEffect(e, f.Type())
		} else {
			e.keys[fieldKey(t, sanitize(f.Name()))] = f.Type()
		}
	}
}

func (x *Exec) callEffects(c *ssa.CallCommon, visiting map[*ssa.Function]bool) *Effects {
	e := newEffects()
	if b, ok := c.Value.(*ssa.Builtin); ok {
		switch b.Name() {
		case "append", "copy":
			if st, ok := c.Args[0].Type().Underlying().(*types.Slice); ok {
				e.keys[elemKey(st.Elem())] = st.Elem()
			}
		case "delete":
			mt := c.Args[0].Type()
			e.keys["MD."+typeName(mt)] = mt
		}
		return e
	}
	if c.IsInvoke() {
		if con := x.eng.ifaceContract(c); con != nil {
			return x.contractEffects(con, c.Signature())
		}
		if c.Method != nil && noEffectCallee(c.Method.FullName()) {
			return e // metrics counters, loggers, Stringers behind an interface (T1/T2)
		}
		e.setAll()
		return e
	}
	callee := c.StaticCallee()
	if callee == nil {
		if mc, ok := c.Value.(*ssa.MakeClosure); ok {
			return x.frameOf(mc.Fn.(*ssa.Function), visiting)
		}
		e.setAll()
		return e
	}
	name := callee.String()
	if isLockOp(name) != "" {
		return e
	}
	if con := x.eng.cs.Funcs[x.eng.fnKey(callee)]; con != nil && !con.Inline {
		return x.contractEffects(con, callee.Signature)
	}
	if noEffectCallee(name) {
		return e
	}
	return x.frameOf(callee, visiting)
}

// contractEffects maps a modifies clause to heap keys (statically typed)
func (x *Exec) contractEffects(con *Contract, sig *types.Signature) *Effects {
	e := newEffects()
	if con.Pure || (con.HasMod && len(con.Modifies) == 0) {
		return e
	}
	if !con.HasMod {
		if con.Trusted {
			return e // trusted contracts without modifies are pure by declaration
		}
		e.setAll()
		return e
	}
	scope := map[string]types.Type{}
	if sig.Recv() != nil {
		scope[sig.Recv().Name()] = sig.Recv().Type()
	}
	for i := 0; i < sig.Params().Len(); i++ {
		scope[sig.Params().At(i).Name()] = sig.Params().At(i).Type()
	}
	for _, m := range con.Modifies {
		x.modEffect(e, m.Expr, scope, con)
	}
	return e
}

func (x *Exec) modEffect(e *Effects, m ast.Expr, scope map[string]types.Type, con *Contract) {
	switch n := m.(type) {
	case *ast.Ident:
		if n.Name == "all" {
			e.setAll()
			return
		}
		// ghost variable
		e.keys["ghost."+n.Name] = mathInt
		return
	case *ast.SelectorExpr:
		bt := x.staticType(n.X, scope, con)
		if bt == nil {
			e.setAll()
			return
		}
		if p, ok := bt.Underlying().(*types.Pointer); ok {
			bt = p.Elem()
		}
		stt, ok := bt.Underlying().(*types.Struct)
		if !ok {
			e.setAll()
			return
		}
		for i := 0; i < stt.NumFields(); i++ {
			if stt.Field(i).Name() == n.Sel.Name {
				ft := stt.Field(i).Type()
				if kindOf(ft) == KStruct {
					x.structEffect(e, ft)
				} else {
					e.keys[fieldKey(bt, sanitize(n.Sel.Name))] = ft
				}
				return
			}
		}
		e.setAll()
	case *ast.StarExpr:
		bt := x.staticType(n.X, scope, con)
		if bt == nil {
			e.setAll()
			return
		}
		p, ok := bt.Underlying().(*types.Pointer)
		if !ok {
			e.setAll()
			return
		}
		if kindOf(p.Elem()) == KStruct {
			x.structEffect(e, p.Elem())
		} else {
			e.keys[cellKey(p.Elem())] = p.Elem()
		}
	case *ast.CallExpr:
		id, _ := n.Fun.(*ast.Ident)
		if id != nil && id.Name == "allbut" {
			o := newEffects()
			o.all = true
			func() {
				defer func() {
					if r := recover(); r != nil {
						o.allBare = true
					}
				}()
				o.keep = x.keepPrefixes(con.Pkg, n.Args)
			}()
			e.add(o)
			return
		}
		if id != nil && id.Name == "gh" && len(n.Args) == 2 {
			if lit, ok := n.Args[0].(*ast.BasicLit); ok {
				nm, _ := strconv.Unquote(lit.Value)
				e.keys["G."+nm] = mathInt
				return
			}
		}
		if id == nil || len(n.Args) != 1 {
			e.setAll()
			return
		}
		bt := x.staticType(n.Args[0], scope, con)
		switch id.Name {
		case "val":
			e.keys["G.bigval"] = mathInt
		case "elems":
			if bt != nil {
				if s, ok := bt.Underlying().(*types.Slice); ok {
					e.keys[elemKey(s.Elem())] = s.Elem()
					return
				}
			}
			e.setAll()
		case "entries":
			if bt != nil {
				if _, ok := bt.Underlying().(*types.Map); ok {
					e.keys["MD."+typeName(bt)] = bt
					return
				}
			}
			e.setAll()
		case "held":
			// lock state is not heap
		case "ghall":
			if lit, ok := n.Args[0].(*ast.BasicLit); ok {
				nm, _ := strconv.Unquote(lit.Value)
				e.keys["G."+nm] = mathInt
				return
			}
			e.setAll()
		default:
			e.setAll()
		}
	default:
		e.setAll()
	}
}

func (x *Exec) staticType(n ast.Expr, scope map[string]types.Type, con *Contract) types.Type {
	switch v := n.(type) {
	case *ast.Ident:
		if t, ok := scope[v.Name]; ok {
			return t
		}
		return nil
	case *ast.ParenExpr:
		return x.staticType(v.X, scope, con)
	case *ast.SliceExpr:
		// s[lo:hi] has the type of s (slices; arrays are not sliced in modifies clauses)
		return x.staticType(v.X, scope, con)
	case *ast.StarExpr:
		if t := x.staticType(v.X, scope, con); t != nil {
			if p, ok := t.Underlying().(*types.Pointer); ok {
				return p.Elem()
			}
		}
	case *ast.SelectorExpr:
		bt := x.staticType(v.X, scope, con)
		if bt == nil {
			return nil
		}
		if p, ok := bt.Underlying().(*types.Pointer); ok {
			bt = p.Elem()
		}
		if stt, ok := bt.Underlying().(*types.Struct); ok {
			for i := 0; i < stt.NumFields(); i++ {
				if stt.Field(i).Name() == v.Sel.Name {
					return stt.Field(i).Type()
				}
			}
		}
	case *ast.IndexExpr:
		bt := x.staticType(v.X, scope, con)
		if bt == nil {
			return nil
		}
		switch u := bt.Underlying().(type) {
		case *types.Slice:
			return u.Elem()
		case *types.Map:
			return u.Elem()
		}
	}
	return nil
}

func (x *Exec) applyEffects(st *State, e *Effects) {
	if e.all {
		if !e.allBare && len(e.keep) > 0 {
			// everything but the spared prefixes -- minus those that are written explicitly elsewhere in the same region
			var keep []string
			for _, p := range e.keep {
				written := false
				for k := range e.keys {
					ks := []string{k}
					if strings.HasPrefix(k, "MD.") || strings.HasPrefix(k, "MV.") || strings.HasPrefix(k, "ML.") {
						// domain, values and length of a map type go together
						ks = []string{"MD." + k[3:], "MV." + k[3:], "ML." + k[3:]}
					}
					for _, kk := range ks {
						if strings.HasPrefix(kk, p) || strings.HasPrefix(p, kk) {
							written = true
						}
					}
				}
				if !written {
					keep = append(keep, p)
				}
			}
			if len(keep) > 0 {
				x.havocAllBut(st, keep)
				return
			}
		}
		x.havocAll(st)
		return
	}
	ks := make([]string, 0, len(e.keys))
	for k := range e.keys {
		ks = append(ks, k)
	}
	sort.Strings(ks)
	for _, k := range ks {
		x.havocKey(st, k, e.keys[k])
	}
	if len(ks) > 0 {
		x.bumpAlloc(st)
	}
}

// ---------- loop heads ----------

func (x *Exec) loopHead(fr *Frame, st *State, b *ssa.BasicBlock, pred *ssa.BasicBlock, ord int, li *LoopInfo) bool {
	if fr.depth == 0 {
		x.rebindOK = true
		defer func() { x.rebindOK = false }()
	}
	body := li.body[b]
	isBack := pred != nil && body[pred]
	var invs []Clause
	if fr.con != nil {
		for _, c := range fr.con.LoopInv[ord] {
			if c.Group == "" || c.Group == x.view || fr.depth > 0 {
				invs = append(invs, c)
			}
		}
	}
	// simultaneous phi assignment from the incoming edge
	var phis []*ssa.Phi
	var vals []Val
	for _, in := range b.Instrs {
		ph, ok := in.(*ssa.Phi)
		if !ok {
			break
		}
		for i, p := range b.Preds {
			if p == pred {
				phis = append(phis, ph)
				vals = append(vals, x.get(st, ph.Edges[i]))
			}
		}
	}
	for i, ph := range phis {
		st.env[ph] = vals[i]
		x.bindPhiName(st, ph, vals[i])
	}
	if k, ok := st.dbg["__k"]; ok && hasRangeIndex(phis) {
		st.dbg[fmt.Sprintf("__k%d", ord)] = k // $k<ord>: progress of loop <ord>, visible inside nested loops
		// $n: the length of the ranged-over slice/array/string (evaluated once, before the loop): the bound the index is compared with
		for _, in := range b.Instrs {
			if bo, ok := in.(*ssa.BinOp); ok && bo.Op == token.LSS {
				if n := x.get(st, bo.Y); n.K == KInt {
					st.dbg["__n"] = n
					st.dbg[fmt.Sprintf("__n%d", ord)] = n
				}
				// $s: the ranged-over slice itself (an unnamed temporary when the loop ranges over a call result)
				if c, ok := bo.Y.(*ssa.Call); ok {
					if bi, ok := c.Call.Value.(*ssa.Builtin); ok && bi.Name() == "len" && len(c.Call.Args) == 1 {
						if sv := x.get(st, c.Call.Args[0]); sv.K == KSlice {
							st.dbg["__s"] = sv
							st.dbg[fmt.Sprintf("__s%d", ord)] = sv
						}
					}
				}
				break
			}
		}
	}
	which := "established"
	if isBack {
		which = "preserved"
	}
	// the clauses are proved in order, each relying on the earlier ones (on a copy: the incoming state is not changed)
	cs := st.clone()
	for i, inv := range invs {
		x.specCheck(fr, cs, fmt.Sprintf("loop%d.inv[%d].%s", ord, i, which), "invariant", inv, nil, b.Instrs[0])
	}
	if isBack {
		x.endPath()
		return false
	}
	if len(invs) == 0 && fr.con != nil && !fr.inSpec {
		x.note(fmt.Sprintf("loop %d of %s has no invariant: cut with the trivial invariant", ord, x.eng.fnKey(fr.fn)))
	}
	// havoc: header phis and everything the loop body may write
	for _, ph := range phis {
		if vals0 := st.env[ph]; vals0.K == KOpaque || vals0.K == KFunc || vals0.K == KAddr {
			continue
		}
		fv := x.freshVal(st, ph.Type(), phiName(ph))
		st.env[ph] = fv
		x.bindPhiName(st, ph, fv)
	}
	if k, ok := st.dbg["__k"]; ok && hasRangeIndex(phis) {
		st.dbg[fmt.Sprintf("__k%d", ord)] = k
	}
	eff := newEffects()
	var blocks []*ssa.BasicBlock
	for bb := range body {
		blocks = append(blocks, bb)
	}
	sort.Slice(blocks, func(i, j int) bool { return blocks[i].Index < blocks[j].Index })
	for _, bb := range blocks {
		eff.add(x.blockEffects(fr.fn, bb, map[*ssa.Function]bool{}))
	}
	// writes to locals allocated before the loop (cells of Allocs) are included via their cell keys
	for _, bb := range blocks {
		for _, in := range bb.Instrs {
			if s, ok := in.(*ssa.Store); ok {
				if a, ok := s.Addr.(*ssa.Alloc); ok {
					et := a.Type().(*types.Pointer).Elem()
					if kindOf(et) == KStruct {
						x.structEffect(eff, et)
					} else if _, isArr := et.Underlying().(*types.Array); isArr {
						at := et.Underlying().(*types.Array)
						eff.keys[elemKey(at.Elem())] = at.Elem()
					} else {
						eff.keys[cellKey(et)] = et
					}
				}
			}
		}
	}
	if os.Getenv("GOVC_DEBUG") != "" {
		fmt.Fprintf(os.Stderr, "loop %d of %s: effects all=%v keys=%v\n", ord, x.key, eff.all, sortedKeys(eff.keys))
	}
	x.applyEffects(st, eff)
	// map iterators created before the loop: visited set becomes unknown
	for _, in := range b.Instrs {
		if nx, ok := in.(*ssa.Next); ok {
			if rg, ok := nx.Iter.(*ssa.Range); ok {
				if mt, ok := rg.X.Type().Underlying().(*types.Map); ok {
					st.visited[rg] = x.decls.Fresh("visited", "(Array "+mapKeySort(mt)+" Bool)")
				}
			}
		}
	}
	// lock state changed inside the loop is not tracked across the cut: loops that lock/unlock must be balanced (checked by held-set equality at back edge: omitted)
	for _, inv := range invs {
		x.specAssume(fr, st, inv)
	}
	x.withSpecErr("use", func() { x.applyUses(fr, st, x.specEnvHere(fr, st, nil), fmt.Sprintf("loop%d", ord)) })
	return true
}

func hasRangeIndex(phis []*ssa.Phi) bool {
	for _, ph := range phis {
		if ph.Comment == "rangeindex" {
			return true
		}
	}
	return false
}

func phiName(ph *ssa.Phi) string {
	if ph.Comment != "" {
		return ph.Comment
	}
	return ph.Name()
}

func (x *Exec) bindPhiName(st *State, ph *ssa.Phi, v Val) {
	if ph.Comment == "" || v.K == KOpaque {
		return
	}
	if ph.Comment == "rangeindex" {
		if v.K == KInt {
			st.dbg["__k"] = intVal(sAdd(v.S, "1"), types.Typ[types.Int])
		}
		return
	}
	st.dbg[ph.Comment] = v
}

// ---------- defers ----------

func (x *Exec) runDefers(fr *Frame, st *State, level int, k func(st *State)) {
	if level < 0 || level >= len(st.defers) || len(st.defers[level]) == 0 {
		k(st)
		return
	}
	ds := st.defers[level]
	d := ds[len(ds)-1]
	st.defers[level] = ds[:len(ds)-1]
	x.callCommon(fr, st, d.pos, d.call, d.fnv, d.args, func(st2 *State, _ Val) {
		x.runDefers(fr, st2, level, k)
	})
}

// ---------- calls ----------

func isLockOp(name string) string {
	switch {
	case strings.HasSuffix(name, "(*sync.Mutex).Lock"), strings.HasSuffix(name, "(*sync.RWMutex).Lock"):
		return "lock"
	case strings.HasSuffix(name, "(*sync.Mutex).Unlock"), strings.HasSuffix(name, "(*sync.RWMutex).Unlock"):
		return "unlock"
	case strings.HasSuffix(name, "(*sync.RWMutex).RLock"):
		return "rlock"
	case strings.HasSuffix(name, "(*sync.RWMutex).RUnlock"):
		return "runlock"
	}
	return ""
}

func (x *Exec) call(fr *Frame, st *State, in ssa.Instruction, c *ssa.CallCommon, k func(st *State, res Val)) {
	if os.Getenv("GOVC_TRACE_CALLS") != "" && fr.depth == 0 {
		fmt.Fprintln(os.Stderr, "CALL", x.label(fr.fn, in, "call"), x.where(in))
	}
	if fr.con != nil && len(fr.con.AssertAt) > 0 {
		lbl := x.label(fr.fn, in, "call")
		for i, a := range fr.con.AssertAt[lbl] {
			if fr.depth == 0 {
				x.rebindOK = true
			}
			func() {
				defer func() { x.rebindOK = false }()
				x.specCheck(fr, st, fmt.Sprintf("assert@%s[%d]", lbl, i), "assert", a, nil, in)
			}()
		}
		if fr.depth == 0 && fr.con.Opts["stop-at"] != "" && "call:"+fr.con.Opts["stop-at"] == lbl {
			// the contract only speaks about the state reached here: the rest of the function is not explored
			x.note("exploration of " + x.key + " stops at " + lbl + " (opt stop-at): code after it is not covered by this contract")
			x.endPath()
			return
		}
	}
	var args []Val
	for _, a := range c.Args {
		args = append(args, x.get(st, a))
	}
	x.callCommon(fr, st, in, c, x.get(st, c.Value), args, k)
}

func resultType(sig *types.Signature) types.Type {
	switch sig.Results().Len() {
	case 0:
		return types.NewTuple()
	case 1:
		return sig.Results().At(0).Type()
	}
	return sig.Results()
}

func (x *Exec) callCommon(fr *Frame, st *State, in ssa.Instruction, c *ssa.CallCommon, fnv Val, args []Val, k func(st *State, res Val)) {
	sig := c.Signature()
	rt := resultType(sig)
	if b, ok := c.Value.(*ssa.Builtin); ok {
		k(st, x.builtin(fr, st, in, b, c, args))
		return
	}
	if c.IsInvoke() {
		recv := fnv
		if con := x.eng.ifaceContract(c); con != nil {
			x.applyContract(fr, st, in, con, sig, x.eng.ifaceKeyOf(c), append([]Val{recv}, args...), true, k)
			return
		}
		// unknown interface method: no-effect names, else havoc everything
		full := c.Value.Type().String() + "." + c.Method.Name()
		if noEffectCallee(full) || noEffectCallee("."+c.Method.Name()) {
			k(st, x.freshResult(st, rt, c.Method.Name()))
			return
		}
		x.note("interface call without contract: " + types.TypeString(c.Value.Type(), qualifier) + "." + c.Method.Name() + " (heap havoced)")
		x.havocAllCall(st, append([]Val{recv}, args...))
		k(st, x.freshResult(st, rt, c.Method.Name()))
		return
	}
	callee := c.StaticCallee()
	if callee == nil {
		// closure or function value
		if fnv.K == KFunc && fnv.Fn != nil {
			x.inlineCall(fr, st, in, fnv.Fn, append(append([]Val{}, args...)), fnv.Bind, k)
			return
		}
		if tc := x.eng.funcTypeContract(c.Value.Type()); tc != nil {
			x.applyContract(fr, st, in, tc, sig, tc.Key, args, false, k)
			return
		}
		// a function-typed struct field of unnamed type: contract "func field:Type.name"
		if tc := x.eng.funcFieldContract(c.Value); tc != nil {
			x.applyContract(fr, st, in, tc, sig, tc.Key, args, false, k)
			return
		}
		x.note("call through function value without contract at " + x.where(in) + " (heap havoced)")
		x.havocAllCall(st, append([]Val{fnv}, args...))
		k(st, x.freshResult(st, rt, "dyn"))
		return
	}
	name := callee.String()
	if op := isLockOp(name); op != "" {
		x.lockOp(fr, st, in, op, args[0])
		k(st, Val{K: KTuple, T: types.NewTuple()})
		return
	}
	if callee.Parent() != nil && fnv.K != KFunc {
		// direct call of an anonymous function without free variables
		fnv = Val{K: KFunc, Fn: callee}
	}
	key := x.eng.fnKey(callee)
	if con := x.eng.cs.Funcs[key]; con != nil {
		con.used = true
		if con.Inline {
			if callee.Blocks == nil {
				panic(oos("inline callee %s is not loaded with syntax", key))
			}
			x.inlineCall(fr, st, in, callee, args, nil, k)
			return
		}
		x.applyContract(fr, st, in, con, callee.Signature, key, args, false, k)
		return
	}
	if r, ok := x.specialCallee(fr, st, in, callee, args); ok {
		k(st, r)
		return
	}
	if noEffectCallee(name) {
		k(st, x.freshResult(st, rt, callee.Name()))
		return
	}
	if callee.Parent() != nil && callee.Blocks != nil {
		x.inlineCall(fr, st, in, callee, args, fnv.Bind, k)
		return
	}
	// small loop-free callees of the repository without a contract are inlined (their code is what runs)
	if callee.Blocks != nil && len(callee.Blocks) <= 10 && fr.depth < maxInlineDepth-1 && len(x.loopInfo(callee).headers) == 0 && strings.HasPrefix(callee.Pkg.Pkg.Path(), modulePath) && !isRecursive(fr, callee) {
		x.inlineCall(fr, st, in, callee, args, nil, k)
		return
	}
	// unknown callee: inferred frame
	eff := x.frameOf(callee, map[*ssa.Function]bool{})
	if eff.all {
		x.note("callee without contract and with unbounded frame: " + key + " (heap havoced)")
	} else if len(eff.keys) > 0 {
		x.note("callee without contract: " + key + " (inferred frame havoced)")
	}
	x.applyEffects(st, eff)
	k(st, x.freshResult(st, rt, callee.Name()))
}

func (x *Exec) freshResult(st *State, rt types.Type, name string) Val {
	if tp, ok := rt.(*types.Tuple); ok && tp.Len() == 0 {
		return Val{K: KTuple, T: rt}
	}
	return x.freshVal(st, rt, "r."+name)
}

// specialCallee: a few library functions with built-in semantics
func (x *Exec) specialCallee(fr *Frame, st *State, in ssa.Instruction, callee *ssa.Function, args []Val) (Val, bool) {
	switch callee.String() {
	case "math.Ceil", "math.Floor":
		if len(args) == 1 && args[0].K == KFloat {
			mode := "RTP"
			if callee.Name() == "Floor" {
				mode = "RTN"
			}
			_ = mode
			return x.floatRound(args[0], strings.ToLower(callee.Name())), true
		}
	case "bytes.Compare", "bytes.Equal":
		if len(args) == 2 && args[0].K == KSlice && args[1].K == KSlice {
			eq := x.contentEq(st, args[0], args[1])
			if callee.Name() == "Equal" {
				return boolVal(eq), true
			}
			return intVal(x.cmpBytesTerm(st, args[0], args[1], eq), types.Typ[types.Int]), true
		}
	}
	return Val{}, false
}

// cmpBytesTerm: the result of bytes.Compare(a, b), in {-1, 0, 1}.  Lexicographic order on byte strings is a countable total order,
// so it embeds into the reals: lexrank is an uninterpreted, injective, order-preserving function of the content.  Totality,
// antisymmetry and transitivity of Compare then come from real arithmetic instead of axioms.
func (x *Exec) cmpBytesTerm(st *State, a, b Val, eq string) string {
	return x.cmpContentTerm(st, x.contentOf(st, a), x.contentOf(st, b), eq)
}

func (x *Exec) cmpContentTerm(st *State, ca, cb string, eq string) string {
	x.decls.Fun("lexrank", []string{"Val"}, "Real")
	x.decls.Fun("lexrank.inv", []string{"Real"}, "Val")
	x.decls.Pat("app:lexrank", func(args []string) string {
		return sEq("(lexrank.inv (lexrank "+args[0]+"))", args[0]) // injective
	})
	ra, rb := "(lexrank "+ca+")", "(lexrank "+cb+")"
	if eq != "" {
		st.assume(sEq(sEq(ra, rb), eq))
	}
	// a term, not a fresh symbol: inside quantifier bodies (frozen states) an assumption about a fresh symbol would be lost
	return sIte("(< "+ra+" "+rb+")", "(- 1)", sIte(sEq(ra, rb), "0", "1"))
}

// bytesEq: content equality of two byte slices as a fresh proposition p with
//
//	p ==> len equal and (forall i) bytes equal      (quantified assumption, instantiated at emission)
//	!p ==> lengths differ or a witness index differs
func (x *Exec) bytesEq(st *State, a, b Val) string {
	et := a.T.Underlying().(*types.Slice).Elem()
	l := x.lazyFor(st, et).clone()
	p := x.decls.Fresh("byteseq", "Bool")
	body := func(i string) string {
		return sEq(l.read(a.Arr, sAdd(a.Off, i))[0], l.read(b.Arr, sAdd(b.Off, i))[0])
	}
	w := x.decls.Fresh("diffidx", "Int")
	st.pc = append(st.pc, PCItem{QF: &F{Op: "forall", Var: "i", Lo: "0", Hi: a.Len, Body: func(t string) *F {
		return atom(sImp(p, body(t)))
	}}})
	st.assume(sImp(p, sEq(a.Len, b.Len)))
	st.assume(sImp(sNot(p), sOr(sNot(sEq(a.Len, b.Len)), sAnd(sLe("0", w), sLt(w, a.Len), sNot(body(w))))))
	st.addIdxSeq(sAdd(a.Off, w), a.Arr)
	return p
}

// ---------- builtins ----------

func (x *Exec) builtin(fr *Frame, st *State, in ssa.Instruction, b *ssa.Builtin, c *ssa.CallCommon, args []Val) Val {
	rt := resultType(c.Signature())
	switch b.Name() {
	case "len":
		a := args[0]
		switch a.K {
		case KSlice:
			return intVal(a.Len, types.Typ[types.Int])
		case KStr:
			return intVal(x.strlen(a.S), types.Typ[types.Int])
		case KRef:
			if _, ok := a.T.Underlying().(*types.Map); ok {
				return intVal(x.mapLen(st, a), types.Typ[types.Int])
			}
		case KArr:
			return intVal(sInt(a.T.Underlying().(*types.Array).Len()), types.Typ[types.Int])
		}
		return opaque(rt, "len of "+kindName(a.K))
	case "cap":
		if args[0].K == KSlice {
			return intVal(args[0].Cap, types.Typ[types.Int])
		}
		return opaque(rt, "cap")
	case "append":
		return x.doAppend(fr, st, in, args[0], args[1])
	case "copy":
		return x.doCopy(st, args[0], args[1])
	case "delete":
		if len(c.Args) > 0 {
			x.directWrite(fr, st, in, c.Args[0])
		}
		if args[0].K == KRef && args[1].K != KOpaque {
			x.mapDelete(st, args[0], args[1])
		} else {
			panic(oos("delete on unmodelled map/key"))
		}
		return Val{K: KTuple, T: types.NewTuple()}
	case "print", "println":
		return Val{K: KTuple, T: types.NewTuple()}
	case "recover":
		panic(oos("recover() (T4)"))
	case "close":
		panic(oos("close of channel (T4)"))
	case "min", "max":
		if len(args) == 2 && args[0].K == KInt && args[1].K == KInt {
			if b.Name() == "min" {
				return intVal(sMin(args[0].S, args[1].S), rt)
			}
			return intVal(sMax(args[0].S, args[1].S), rt)
		}
	}
	return opaque(rt, "builtin "+b.Name())
}

func (x *Exec) doAppend(fr *Frame, st *State, in ssa.Instruction, s, t Val) Val {
	if s.K != KSlice {
		return opaque(s.T, "append to "+kindName(s.K))
	}
	et := s.T.Underlying().(*types.Slice).Elem()
	var m, tarr, toff string
	strSrc := false
	switch t.K {
	case KSlice:
		m, tarr, toff = t.Len, t.Arr, t.Off
	case KStr:
		m = x.strlen(t.S)
		strSrc = true
	default:
		return opaque(s.T, "append of "+kindName(t.K))
	}
	cur := x.lazyFor(st, et)
	fits := sLe(sAdd(s.Len, m), s.Cap)
	if m != "0" && !(fits == "true") {
		// decide the case statically when possible to keep terms small
		if x.prove(st, fits) {
			fits = "true"
		} else if x.prove(st, sNot(fits)) {
			fits = "false"
		}
	}
	nr := x.allocRef(st)
	ncap := x.decls.Fresh("newcap", "Int")
	x.decls.Axiom(ncap, sAnd(sLe(ncap, capLimit)))
	st.assume(sLe(sAdd(s.Len, m), ncap))
	snap := cur.clone()
	if strSrc {
		hv := x.decls.Fresh("strbytes", "(Array Int (Array Int Int))")
		x.byteArrayFacts(hv)
		if fits != "false" {
			cur.ups = append(cur.ups, Upd{guard: guardOf(fits), arr: s.Arr, lo: sAdd(s.Off, s.Len), n: m, havoc: []string{hv}})
		}
		if fits != "true" {
			cur.ups = append(cur.ups,
				Upd{guard: guardOf(sNot(fits)), bulk: true, arr: nr, lo: "0", n: s.Len, src: snap, srcArr: s.Arr, srcOff: s.Off},
				Upd{guard: guardOf(sNot(fits)), arr: nr, lo: s.Len, n: m, havoc: []string{hv}})
		}
	} else {
		if fits != "false" {
			cur.ups = append(cur.ups, Upd{guard: guardOf(fits), bulk: true, arr: s.Arr, lo: sAdd(s.Off, s.Len), n: m, src: snap, srcArr: tarr, srcOff: toff})
		}
		if fits != "true" {
			cur.ups = append(cur.ups,
				Upd{guard: guardOf(sNot(fits)), bulk: true, arr: nr, lo: "0", n: s.Len, src: snap, srcArr: s.Arr, srcOff: s.Off},
				Upd{guard: guardOf(sNot(fits)), bulk: true, arr: nr, lo: s.Len, n: m, src: snap, srcArr: tarr, srcOff: toff})
		}
	}
	// an append to a slice this activation allocated writes only fresh memory (in place or after reallocation)
	st.bumpWrite(s.Arr, nil)
	st.addIdxSeq(sAdd(s.Off, s.Len), s.Arr)
	arrT := x.decls.Define("app.arr", "Int", sIte(fits, s.Arr, nr))
	if arrT != s.Arr {
		x.alias[arrT] = append(x.alias[arrT], s.Arr, nr)
	}
	return Val{K: KSlice, T: s.T,
		Arr: arrT,
		Off: x.decls.Define("app.off", "Int", sIte(fits, s.Off, "0")),
		Len: sAdd(s.Len, m),
		Cap: x.decls.Define("app.cap", "Int", sIte(fits, s.Cap, ncap))}
}

func guardOf(g string) string {
	if g == "true" {
		return ""
	}
	return g
}

func (x *Exec) doCopy(st *State, dst, src Val) Val {
	if dst.K != KSlice {
		return opaque(types.Typ[types.Int], "copy into "+kindName(dst.K))
	}
	et := dst.T.Underlying().(*types.Slice).Elem()
	cur := x.lazyFor(st, et)
	switch src.K {
	case KSlice:
		n := sMin(dst.Len, src.Len)
		snap := cur.clone()
		cur.ups = append(cur.ups, Upd{bulk: true, arr: dst.Arr, lo: dst.Off, n: n, src: snap, srcArr: src.Arr, srcOff: src.Off})
		st.bumpWrite(dst.Arr, nil)
		return intVal(n, types.Typ[types.Int])
	case KStr:
		n := sMin(dst.Len, x.strlen(src.S))
		hv := x.decls.Fresh("strbytes", "(Array Int (Array Int Int))")
		cur.ups = append(cur.ups, Upd{arr: dst.Arr, lo: dst.Off, n: n, havoc: []string{hv}})
		st.bumpWrite(dst.Arr, nil)
		return intVal(n, types.Typ[types.Int])
	}
	return opaque(types.Typ[types.Int], "copy from "+kindName(src.K))
}

// ---------- locks (ghost held-set) ----------

func lockKeyOf(v Val) string {
	switch v.K {
	case KRef:
		return v.S
	case KAddr:
		return v.A.Base + "#" + v.A.Key
	}
	panic(oos("lock operation on %s value", kindName(v.K)))
}

func (st *State) heldW(k string) string {
	if h, ok := st.held["W:"+k]; ok {
		return h
	}
	return "false"
}

func (st *State) heldR(k string) string {
	if h, ok := st.held["R:"+k]; ok {
		return h
	}
	return "false"
}

func (x *Exec) lockOp(fr *Frame, st *State, in ssa.Instruction, op string, recv Val) {
	k := lockKeyOf(recv)
	lbl := x.label(fr.fn, in, "call")
	if op == "lock" || op == "rlock" {
		// `opt atomic=<lock>` on the function under contract: everything it does under a lock happens in ONE critical section of that
		// lock (check-then-act must not be split over two acquisitions: between them other threads run).  Acquisitions inside inlined
		// callees count.  A design rule, opt-in per function; it is the reduction criterion for atomicity.
		root := fr
		for root.parent != nil {
			root = root.parent
		}
		if root.con != nil && root.con.Opts["atomic"] != "" {
			if st.held["A:"+k] == "1" {
				x.emit(fr, st, lbl+".second-critical-section", "atomic", atom("false"), in)
			}
			st.held["A:"+k] = "1"
		}
	}
	switch op {
	case "lock":
		x.check(fr, st, lbl+".pre[!held]", "lock", sNot(sOr(st.heldW(k), st.heldR(k))), in)
		st.held["W:"+k] = "true"
	case "unlock":
		x.check(fr, st, lbl+".pre[held]", "lock", st.heldW(k), in)
		st.held["W:"+k] = "false"
	case "rlock":
		x.check(fr, st, lbl+".pre[!held]", "lock", sNot(st.heldW(k)), in)
		st.held["R:"+k] = "true"
	case "runlock":
		x.check(fr, st, lbl+".pre[rheld]", "lock", st.heldR(k), in)
		st.held["R:"+k] = "false"
	}
}

// guardedAccess checks the guarded_by discipline for a load/store through p
func (x *Exec) guardedAccess(fr *Frame, st *State, in ssa.Instruction, p Val, write bool) {
	if p.K != KAddr || p.A.Kind != AField || len(x.eng.guarded) == 0 {
		return
	}
	g, ok := x.eng.guarded[p.A.Key]
	base := p.A.Base
	if !ok && strings.HasPrefix(base, "(sub.") {
		// a field of a struct-typed guarded field (c.lastSig.Height with lastSig guarded): the lock is in the enclosing object
		if i := strings.IndexByte(base, ' '); i > 0 {
			if sg, isSub := x.eng.guardedSub[base[1:i]]; isSub {
				g, ok, base = sg, true, base[i+1:len(base)-1]
			}
		}
	}
	if !ok {
		return
	}
	if fr.con != nil && fr.con.Opts["no-lock-check"] != "" {
		return
	}
	// the lock lives in the same object: key of the sub-object ref
	lk := ""
	if g.global != "" {
		lk = x.decls.Const(g.global, "Int")
	} else {
		lk = x.subRefTerm(g.owner, g.lockField, base)
	}
	cond := st.heldW(lk)
	if !write {
		cond = sOr(cond, st.heldR(lk))
	}
	kind := "guarded_by:read"
	if write {
		kind = "guarded_by:write"
	}
	lk0 := "nil-deref:load"
	if write {
		lk0 = "nil-deref:store"
	}
	x.check(fr, st, x.label(fr.fn, in, lk0)+"."+kind+":"+g.name, "guarded_by", cond, in)
}

func (x *Exec) subRefTerm(owner types.Type, field string, ref string) string {
	tag := sanitize("sub." + typeName(owner) + "." + field)
	return "(" + tag + " " + ref + ")"
}

// ---------- inlining ----------

func (x *Exec) inlineCall(fr *Frame, st *State, in ssa.Instruction, callee *ssa.Function, args []Val, binds []Val, k func(st *State, res Val)) {
	if fr.depth >= maxInlineDepth {
		panic(oos("inlining depth exceeded at %s", callee.String()))
	}
	for f := fr; f != nil; f = f.parent {
		if f.fn == callee {
			panic(oos("recursive inlining of %s", callee.String()))
		}
	}
	if callee.Blocks == nil {
		panic(oos("cannot inline %s: no body", callee.String()))
	}
	nf := &Frame{fn: callee, parent: fr, depth: fr.depth + 1, nopanic: fr.nopanic, inSpec: fr.inSpec, names: map[string]Val{}}
	nf.con = x.eng.cs.Funcs[x.eng.fnKey(callee)]
	lbl := "inl"
	if in != nil {
		lbl = x.label(fr.fn, in, "call")
	}
	nf.prefix = fr.prefix + lbl + "/"
	for i, p := range callee.Params {
		if i < len(args) {
			st.env[p] = args[i]
		}
	}
	for i, fv := range callee.FreeVars {
		if i < len(binds) {
			st.env[fv] = binds[i]
		}
	}
	savedDbg := st.dbg
	st.dbg = map[string]Val{}
	st.defers = append(st.defers, nil)
	nf.pre = st.snapshot()
	rt := resultType(callee.Signature)
	nf.ret = func(st2 *State, rs []Val) {
		st2.defers = st2.defers[:len(st2.defers)-1]
		nd := make(map[string]Val, len(savedDbg))
		for kk, vv := range savedDbg {
			nd[kk] = vv
		}
		st2.dbg = nd
		var res Val
		switch len(rs) {
		case 0:
			res = Val{K: KTuple, T: rt}
		case 1:
			res = rs[0]
		default:
			res = Val{K: KTuple, T: rt, Fs: rs}
		}
		k(st2, res)
	}
	x.block(nf, st, callee.Blocks[0], nil)
}

// ---------- read-set inference (for heap-dependent pure functions) ----------

func (x *Exec) readsOf(fn *ssa.Function, visiting map[*ssa.Function]bool) *Effects {
	if e, ok := x.eng.reads[fn]; ok {
		return e
	}
	e := newEffects()
	if visiting[fn] {
		return e
	}
	if fn.Blocks == nil {
		if noEffectCallee(fn.String()) {
			return e
		}
		if con := x.eng.cs.Funcs[x.eng.fnKey(fn)]; con != nil && con.Opts["heap-independent"] != "" {
			return e
		}
		e.setAll()
		return e
	}
	visiting[fn] = true
	for _, b := range fn.Blocks {
		for _, in := range b.Instrs {
			switch v := in.(type) {
			case *ssa.UnOp:
				if v.Op == token.MUL {
					if _, isAlloc := v.X.(*ssa.Alloc); isAlloc {
						continue
					}
					if g, isG := v.X.(*ssa.Global); isG && isErrorType(g.Type().(*types.Pointer).Elem()) {
						continue
					}
					x.addrEffect(e, v.X)
				}
			case *ssa.Lookup:
				if mt, ok := v.X.Type().Underlying().(*types.Map); ok {
					_ = mt
					e.keys["MD."+typeName(v.X.Type())] = v.X.Type()
				}
			case *ssa.Range:
				if _, ok := v.X.Type().Underlying().(*types.Map); ok {
					e.keys["MD."+typeName(v.X.Type())] = v.X.Type()
				}
			case *ssa.Call:
				c := &v.Call
				if b, ok := c.Value.(*ssa.Builtin); ok {
					switch b.Name() {
					case "len":
						if _, ok := c.Args[0].Type().Underlying().(*types.Map); ok {
							e.keys["MD."+typeName(c.Args[0].Type())] = c.Args[0].Type()
						}
					case "append", "copy":
						if st, ok := c.Args[0].Type().Underlying().(*types.Slice); ok {
							e.keys[elemKey(st.Elem())] = st.Elem()
						}
					}
					continue
				}
				if c.IsInvoke() {
					if con := x.eng.ifaceContract(c); con != nil && con.Pure && con.Opts["heap-independent"] != "" {
						continue
					}
					e.setAll()
					continue
				}
				callee := c.StaticCallee()
				if callee == nil {
					e.setAll()
					continue
				}
				if isLockOp(callee.String()) != "" || noEffectCallee(callee.String()) {
					continue
				}
				e.add(x.readsOf(callee, visiting))
			}
		}
	}
	delete(visiting, fn)
	if len(visiting) == 0 {
		x.eng.reads[fn] = e
	}
	return e
}

func isErrorType(t types.Type) bool {
	n, ok := t.(*types.Named)
	return ok && n.Obj().Pkg() == nil && n.Obj().Name() == "error"
}

func isRecursive(fr *Frame, callee *ssa.Function) bool {
	for f := fr; f != nil; f = f.parent {
		if f.fn == callee {
			return true
		}
	}
	return false
}
