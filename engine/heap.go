package main

// Heap access: per-(struct,field) arrays, cells, element stores, maps, sub-objects, well-typedness axioms.

import (
	"fmt"
	"go/types"
	"math/big"
	"os"
	"strings"

	"golang.org/x/tools/go/ssa"
)

// nonEscaping: every use of the allocation is a load, a store to it, a debug reference or a closure capture
func (x *Exec) nonEscaping(a *ssa.Alloc) bool {
	if r, ok := x.escCache[a]; ok {
		return r
	}
	res := true
	if a.Referrers() != nil {
		for _, u := range *a.Referrers() {
			switch i := u.(type) {
			case *ssa.UnOp, *ssa.DebugRef, *ssa.MakeClosure:
			case *ssa.Store:
				if i.Val == ssa.Value(a) {
					res = false
				}
			default:
				res = false
			}
		}
	}
	x.escCache[a] = res
	return res
}

// callOnly: like nonEscaping, but the allocation may also be handed to calls as a plain argument; whether one of those callees
// could have kept it is then decided per path by the escape tracking (State.escRefs)
func (x *Exec) callOnly(a *ssa.Alloc) bool {
	if r, ok := x.callOnlyCache[a]; ok {
		return r
	}
	res := true
	if a.Referrers() != nil {
		for _, u := range *a.Referrers() {
			switch i := u.(type) {
			case *ssa.UnOp, *ssa.DebugRef:
			case *ssa.Store:
				if i.Val == ssa.Value(a) {
					res = false
				}
			case *ssa.Call:
				if i.Call.Value == ssa.Value(a) {
					res = false
				}
			default:
				res = false
			}
		}
	}
	if x.callOnlyCache == nil {
		x.callOnlyCache = map[*ssa.Alloc]bool{}
	}
	x.callOnlyCache[a] = res
	return res
}

// unescapedFresh: ref is an object allocated by this activation that no callee could have kept and that was never stored
func (st *State) unescapedFresh(ref string) bool {
	if st.escRefs[ref] {
		return false
	}
	for _, f := range st.freshList {
		if f == ref {
			return true
		}
	}
	return false
}

// havocAllCall: the heap effect of a call about which nothing is known
func (x *Exec) havocAllCall(st *State, args []Val) {
	for _, a := range args {
		st.markEscaping(flatten(a))
	}
	x.semKeep = true
	x.havocAll(st)
	x.semKeep = false
}

const capLimit = "281474976710656" // 2^48: assumed upper bound on slice capacities (listed in evidence)

// rangeFact returns the well-typedness fact for a scalar term of Go type t (or "true")
func (x *Exec) rangeFact(term string, c Comp, allocTerm string) string {
	switch c.K {
	case KInt:
		if lo, hi, ok := intRange(c.T); ok {
			return sAnd(sLe(lo, term), sLe(term, hi))
		}
	case KRef:
		if allocTerm != "" {
			return sLe(term, allocTerm)
		}
	}
	return "true"
}

func sliceFact(arr, off, ln, cp, allocTerm string) string {
	f := sAnd(sLe("0", off), sLe("0", ln), sLe(ln, cp), sLe(sAdd(off, cp), capLimit), sLe("0", arr), sImp(sEq(arr, "0"), sAnd(sEq(cp, "0"), sEq(off, "0"))))
	if allocTerm != "" {
		f = sAnd(f, sLe(arr, allocTerm))
	}
	return f
}

// declFacts attaches well-typedness axioms for a freshly created value made of the constant symbols in terms
func (x *Exec) declFacts(t types.Type, terms []string, allocTerm string) {
	cs := comps(t)
	for i := 0; i < len(cs); i++ {
		c := cs[i]
		if c.Role == "arr" {
			f := sliceFact(terms[i], terms[i+1], terms[i+2], terms[i+3], allocTerm)
			for k := i; k < i+4; k++ {
				x.decls.Axiom(terms[k], f)
			}
			i += 3
			continue
		}
		if f := x.rangeFact(terms[i], c, allocTerm); f != "true" {
			x.decls.Axiom(terms[i], f)
		}
	}
}

// freshVal creates a fresh symbolic value of type t
func (x *Exec) freshVal(st *State, t types.Type, prefix string) Val {
	if kindOf(t) == KTuple {
		tp := t.(*types.Tuple)
		v := Val{K: KTuple, T: t}
		for i := 0; i < tp.Len(); i++ {
			v.Fs = append(v.Fs, x.freshVal(st, tp.At(i).Type(), fmt.Sprintf("%s.%d", prefix, i)))
		}
		return v
	}
	cs := comps(t)
	terms := make([]string, len(cs))
	for i, c := range cs {
		terms[i] = x.decls.Fresh(prefix+c.Suffix, c.Sort)
	}
	x.declFacts(t, terms, st.alloc)
	return unflatten(t, terms)
}

// namedVal creates a symbolic value whose component symbols are derived from name (used for parameters)
func (x *Exec) namedVal(st *State, t types.Type, name string) Val {
	cs := comps(t)
	terms := make([]string, len(cs))
	for i, c := range cs {
		terms[i] = x.decls.Const(sanitize(name+c.Suffix), c.Sort)
	}
	x.declFacts(t, terms, st.alloc)
	return unflatten(t, terms)
}

// ---------- one-level arrays (fields, cells, map len, ghost) ----------

// mathInt is a pseudo-type for ghost arrays holding mathematical integers (no range facts)
var mathInt types.Type = types.NewNamed(types.NewTypeName(0, nil, "mathint", nil), types.NewStruct(nil, nil), nil)

func compsOf(t types.Type) []Comp {
	if t == mathInt {
		return []Comp{{Sort: "Int", T: t, K: KOpaque}}
	}
	return comps(t)
}

// installBases creates fresh base arrays (named by tag) for every component of key and attaches well-typedness axioms
func (x *Exec) installBases(st *State, key string, t types.Type, tag string) []*HArr {
	return x.installBasesA(st, key, t, tag, st.alloc)
}

func (x *Exec) installBasesA(st *State, key string, t types.Type, tag string, al string) []*HArr {
	cs := compsOf(t)
	hs := make([]*HArr, len(cs))
	for i, c := range cs {
		k := key + c.Suffix
		base := sanitize(k) + tag
		x.decls.Const(base, "(Array Int "+c.Sort+")")
		hs[i] = &HArr{key: k, sort: c.Sort, base: base}
		st.heap[k] = hs[i]
	}
	for i := 0; i < len(cs); i++ {
		c := cs[i]
		if c.Role == "arr" {
			a, o, l, cp := hs[i].base, hs[i+1].base, hs[i+2].base, hs[i+3].base
			f := func(args []string) string {
				r := args[0]
				// the allocation bound holds for objects that existed when this array version was created; objects allocated
				// later (by callees) may hold newer references
				return sAnd(sliceFact(sSel(a, r), sSel(o, r), sSel(l, r), sSel(cp, r), ""), sImp(sLe(r, al), sLe(sSel(a, r), al)))
			}
			for _, s := range []string{a, l, cp, o} {
				x.decls.Pat("sel1:"+s, f)
			}
			i += 3
			continue
		}
		if x.rangeFact("t", c, al) != "true" {
			base := hs[i].base
			cc := c
			x.decls.Pat("sel1:"+base, func(args []string) string {
				f := x.rangeFact(sSel(base, args[0]), cc, al)
				if cc.K == KRef {
					return sImp(sLe(args[0], al), f)
				}
				return f
			})
		}
	}
	x.keyTypes[key] = t
	return hs
}

func (x *Exec) harrs(st *State, key string, t types.Type) []*HArr {
	cs := compsOf(t)
	if len(cs) == 0 {
		return nil
	}
	if _, ok := st.heap[key+cs[0].Suffix]; !ok {
		ep, al := st.epochFor(key)
		return x.installBasesA(st, key, t, fmt.Sprintf("@%d", ep), al)
	}
	hs := make([]*HArr, len(cs))
	for i, c := range cs {
		hs[i] = st.heap[key+c.Suffix]
	}
	return hs
}

func (x *Exec) readComps(st *State, key string, t types.Type, ref string) Val {
	hs := x.harrs(st, key, t)
	terms := make([]string, len(hs))
	for i, h := range hs {
		terms[i] = h.read(ref)
	}
	x.noteRead(key, t)
	if t == mathInt {
		return Val{K: KInt, T: types.Typ[types.UntypedInt], S: terms[0]}
	}
	x.readTimeFacts(st, t, terms)
	return unflatten(t, terms)
}

func (x *Exec) writeComps(st *State, key string, t types.Type, ref string, v Val) {
	hs := x.harrs(st, key, t)
	terms := flatten(v)
	if len(terms) != len(hs) {
		panic(oos("store: value shape mismatch for %s (%d vs %d)", key, len(terms), len(hs)))
	}
	for i, h := range hs {
		h.write(ref, terms[i])
	}
	st.bumpWrite(ref, terms)
}

// bumpWrite advances the heap version seen by heap-reading pure functions.  A write into an object that this activation allocated
// and whose reference was never stored anywhere is invisible to functions that are not handed the object (counter hvF)
func (st *State) bumpWrite(target string, vals []string) {
	st.markEscaping(vals)
	if !isFreshRef(target) {
		// a fresh reference stored into memory that existed before (or whose freshness is not syntactically known) escapes;
		// stored into another fresh object it stays unreachable until that object escapes
		for _, v := range vals {
			if strings.Contains(v, "ref!") {
				st.escaped = true
			}
		}
	}
	if isFreshRef(target) && !st.escaped {
		st.hvF++
		return
	}
	if os.Getenv("GOVC_DEBUG_HV") != "" {
		fmt.Fprintf(os.Stderr, "HV bump: target=%s escaped=%v vals=%v\n", truncate(target, 80), st.escaped, len(vals))
	}
	st.hv++
}

// isFreshRef: syntactically an object allocated by the current activation, or a struct-valued field (sub-object) of one
func isFreshRef(t string) bool {
	for strings.HasPrefix(t, "(sub.") {
		i := strings.IndexByte(t, ' ')
		if i < 0 || !strings.HasSuffix(t, ")") {
			return false
		}
		t = t[i+1 : len(t)-1]
	}
	return strings.HasPrefix(t, "ref!")
}

// heapVersion: the version terms a heap-reading pure function applied to args depends on
func (st *State) heapVersion(args []string) string {
	inc := st.escaped
	for _, a := range args {
		if strings.Contains(a, "ref!") {
			inc = true
		}
	}
	if inc {
		return sInt(int64(st.hv)*100000 + int64(st.hvF))
	}
	return sInt(int64(st.hv) * 100000)
}

// ---------- sub-objects (struct-valued fields are objects of their own) ----------

func (x *Exec) subRef(st *State, owner types.Type, field string, ref string) string {
	tag := sanitize("sub." + typeName(owner) + "." + field)
	x.decls.Fun(tag, []string{"Int"}, "Int")
	x.decls.Fun(tag+".inv", []string{"Int"}, "Int")
	x.decls.Fun("subtag", []string{"Int"}, "Int")
	id := x.tagID(tag)
	t := "(" + tag + " " + ref + ")"
	// instance facts (instantiated for every ground application at render time): negative, invertible, tagged
	x.decls.Pat("app:"+tag, func(args []string) string {
		a := "(" + tag + " " + args[0] + ")"
		return sAnd(sLt(a, "0"), sEq("("+tag+".inv "+a+")", args[0]), sEq("(subtag "+a+")", sInt(int64(id))))
	})
	return t
}

func (x *Exec) tagID(tag string) int {
	if id, ok := x.tags[tag]; ok {
		return id
	}
	id := len(x.tags) + 1
	x.tags[tag] = id
	return id
}

// fieldAddr computes the address of field i of the struct object at ref (owner = struct type, possibly named)
func (x *Exec) fieldAddr(st *State, ref string, owner types.Type, i int) Val {
	stt := owner.Underlying().(*types.Struct)
	f := stt.Field(i)
	if kindOf(f.Type()) == KStruct {
		return refVal(x.subRef(st, owner, f.Name(), ref), types.NewPointer(f.Type()))
	}
	return Val{K: KAddr, T: types.NewPointer(f.Type()), A: &Addr{Kind: AField, Base: ref, Key: fieldKey(owner, sanitize(f.Name())), T: f.Type()}}
}

// loadObj reads the struct value stored in the object at ref
func (x *Exec) loadObj(st *State, ref string, t types.Type) Val {
	stt := t.Underlying().(*types.Struct)
	v := Val{K: KStruct, T: t}
	for i := 0; i < stt.NumFields(); i++ {
		a := x.fieldAddr(st, ref, t, i)
		if a.K == KRef {
			v.Fs = append(v.Fs, x.loadObj(st, a.S, stt.Field(i).Type()))
		} else {
			v.Fs = append(v.Fs, x.loadAddr(st, a.A))
		}
	}
	return v
}

func (x *Exec) storeObj(st *State, ref string, t types.Type, v Val) {
	stt := t.Underlying().(*types.Struct)
	if v.K != KStruct || len(v.Fs) != stt.NumFields() {
		panic(oos("storeObj: not a struct value for %v", t))
	}
	for i := 0; i < stt.NumFields(); i++ {
		a := x.fieldAddr(st, ref, t, i)
		if a.K == KRef {
			x.storeObj(st, a.S, stt.Field(i).Type(), v.Fs[i])
		} else {
			x.storeAddr(st, a.A, v.Fs[i])
		}
	}
}

// deref loads through a pointer value
func (x *Exec) deref(st *State, p Val) Val {
	switch p.K {
	case KAddr:
		return x.loadAddr(st, p.A)
	case KRef:
		pt, ok := p.T.Underlying().(*types.Pointer)
		if !ok {
			panic(oos("deref of non-pointer %v", p.T))
		}
		et := pt.Elem()
		if kindOf(et) == KStruct {
			return x.loadObj(st, p.S, et)
		}
		if _, isArr := et.Underlying().(*types.Array); isArr && x.arrStorage[p.S] {
			return x.arrayFromStorage(st, p.S, et)
		}
		return x.readComps(st, cellKey(et), et, p.S)
	}
	panic(oos("deref of %s value", kindName(p.K)))
}

func (x *Exec) storeThrough(st *State, p Val, v Val) {
	switch p.K {
	case KAddr:
		x.storeAddr(st, p.A, v)
		return
	case KRef:
		pt, ok := p.T.Underlying().(*types.Pointer)
		if !ok {
			panic(oos("store through non-pointer %v", p.T))
		}
		et := pt.Elem()
		if kindOf(et) == KStruct {
			x.storeObj(st, p.S, et, v)
			return
		}
		if _, isArr := et.Underlying().(*types.Array); isArr && x.arrStorage[p.S] {
			x.arrayToStorage(st, p.S, et, v)
			return
		}
		x.writeComps(st, cellKey(et), et, p.S, v)
		return
	}
	panic(oos("store through %s value", kindName(p.K)))
}

func (x *Exec) loadAddr(st *State, a *Addr) Val {
	switch a.Kind {
	case AField:
		return x.readComps(st, a.Key, a.T, a.Base)
	case AGlobal:
		if isErrorType(a.T) {
			return x.errConst(a.Key)
		}
		if a.Final != "" {
			n, _ := new(big.Int).SetString(a.Final, 10)
			return intVal(sBig(n), a.T)
		}
		return x.readComps(st, a.Key, a.T, "0")
	case AElem:
		if a.ElemT != nil {
			whole := flatten(x.elemReadAbs(st, a.Key, a.ElemT, a.Base, a.Idx))
			return unflatten(a.T, whole[a.CompLo:a.CompLo+a.CompN])
		}
		return x.elemReadAbs(st, a.Key, a.T, a.Base, a.Idx)
	}
	panic("loadAddr")
}

func (x *Exec) storeAddr(st *State, a *Addr, v Val) {
	switch a.Kind {
	case AField:
		x.writeComps(st, a.Key, a.T, a.Base, v)
	case AGlobal:
		x.writeComps(st, a.Key, a.T, "0", v)
	case AElem:
		if a.ElemT != nil {
			// read-modify-write of one field of a struct element
			l := x.lazyFor(st, a.ElemT)
			whole := append([]string{}, l.read(a.Base, a.Idx)...)
			copy(whole[a.CompLo:a.CompLo+a.CompN], flatten(v))
			l.ups = append(l.ups, Upd{arr: a.Base, idx: a.Idx, v: whole})
			st.bumpWrite(a.Base, flatten(v))
			return
		}
		l := x.lazyFor(st, a.T)
		l.ups = append(l.ups, Upd{arr: a.Base, idx: a.Idx, v: flatten(v)})
		st.bumpWrite(a.Base, flatten(v))
	}
}

// ---------- element stores ----------

func (x *Exec) lazyFor(st *State, et types.Type) *Lazy {
	key := elemKey(et)
	if l, ok := st.lazy[key]; ok {
		return l
	}
	cs := comps(et)
	x.declZero(et)
	l := &Lazy{key: key, et: et, base: make([]string, len(cs)), d: x.decls, sorts: make([]string, len(cs))}
	ep, al := st.epochFor(key)
	for i, c := range cs {
		b := fmt.Sprintf("%s@%d", sanitize(key+c.Suffix), ep)
		x.decls.Const(b, "(Array Int (Array Int "+c.Sort+"))")
		l.base[i] = b
		l.sorts[i] = c.Sort
	}
	x.elemBaseFacts(l.base, cs, al)
	st.lazy[key] = l
	return l
}

func (x *Exec) elemBaseFacts(base []string, cs []Comp, allocTerm string) {
	for i := 0; i < len(cs); i++ {
		c := cs[i]
		if c.Role == "arr" {
			b0, b1, b2, b3 := base[i], base[i+1], base[i+2], base[i+3]
			f := func(args []string) string {
				rd := func(b string) string { return sSel(sSel(b, args[0]), args[1]) }
				g := sliceFact(rd(b0), rd(b1), rd(b2), rd(b3), "")
				if allocTerm != "" {
					g = sAnd(g, sImp(sLe(args[0], allocTerm), sLe(rd(b0), allocTerm)))
				}
				return g
			}
			for k := i; k < i+4; k++ {
				x.decls.Pat("sel2:"+base[k], f)
			}
			i += 3
			continue
		}
		if x.rangeFact("t", c, allocTerm) != "true" {
			b0 := base[i]
			cc := c
			x.decls.Pat("sel2:"+b0, func(args []string) string {
				f := x.rangeFact(sSel(sSel(b0, args[0]), args[1]), cc, allocTerm)
				if cc.K == KRef && allocTerm != "" {
					return sImp(sLe(args[0], allocTerm), f)
				}
				return f
			})
		}
	}
}

func (x *Exec) elemReadAbs(st *State, key string, et types.Type, arr, idx string) Val {
	l := x.lazyFor(st, et)
	x.noteRead(key, et)
	var log []IdxT
	terms := l.readL(arr, idx, &log)
	for _, it := range log {
		st.addIdxSeq(it.T, it.Seq)
		if x.idxLog != nil {
			*x.idxLog = append(*x.idxLog, it)
		}
	}
	x.readTimeFacts(st, et, terms)
	return unflatten(et, terms)
}

// elemRead reads s[i] (i relative to the slice)
func (x *Exec) elemRead(st *State, s Val, i string) Val {
	et := s.T.Underlying().(*types.Slice).Elem()
	return x.elemReadAbs(st, elemKey(et), et, s.Arr, sAdd(s.Off, i))
}

// havocElems replaces the element store of et by a fresh base
func (x *Exec) havocLazy(st *State, key string) {
	l, ok := st.lazy[key]
	if !ok {
		return
	}
	cs := comps(l.et)
	nl := &Lazy{key: key, et: l.et, base: make([]string, len(cs)), d: x.decls, sorts: make([]string, len(cs))}
	for i, c := range cs {
		nl.base[i] = x.decls.Fresh(sanitize(key+c.Suffix)+"@h", "(Array Int (Array Int "+c.Sort+"))")
		nl.sorts[i] = c.Sort
	}
	x.elemBaseFacts(nl.base, cs, st.alloc)
	st.lazy[key] = nl
}

// havocKey replaces every component array of a heap key (field/cell/map/ghost/element store) by fresh bases
func (x *Exec) havocKey(st *State, key string, t types.Type) {
	st.hv++
	if strings.HasPrefix(key, "E.") {
		if _, ok := st.lazy[key]; !ok {
			x.lazyFor(st, t)
		}
		x.havocLazy(st, key)
		return
	}
	if strings.HasPrefix(key, "MD.") || strings.HasPrefix(key, "MV.") || strings.HasPrefix(key, "ML.") {
		x.havocMap(st, t)
		return
	}
	x.fresh++
	x.installBases(st, key, t, fmt.Sprintf("@h%d", x.fresh))
}

func (x *Exec) havocMap(st *State, mt types.Type) {
	m := mt.Underlying().(*types.Map)
	// make sure all arrays exist, then replace their bases
	x.mapDom(st, mt)
	x.mapLenArr(st, mt)
	for _, c := range comps(m.Elem()) {
		x.mapValArr(st, mt, c)
	}
	x.fresh++
	ep := st.epoch
	st.epoch = -x.fresh // unique negative epoch tag for the fresh names
	delete(st.heap, "MD."+typeName(mt))
	delete(st.heap, "ML."+typeName(mt))
	for _, c := range comps(m.Elem()) {
		delete(st.heap, "MV."+typeName(mt)+c.Suffix)
	}
	x.mapDom(st, mt)
	x.mapLenArr(st, mt)
	for _, c := range comps(m.Elem()) {
		x.mapValArr(st, mt, c)
	}
	st.epoch = ep
}

// havocAll forgets the whole heap: later reads create fresh base arrays in a new epoch
func (x *Exec) havocAll(st *State) {
	// local variables that live in memory but whose address never leaves the function (only loaded, stored, captured by
	// closures of this function) cannot be written by a callee: their cells survive the havoc
	type keep struct {
		t   types.Type
		ref string
		v   Val
	}
	var kept []keep
	for sv, v := range st.env {
		a, ok := sv.(*ssa.Alloc)
		if !ok || v.K != KRef {
			continue
		}
		if !x.nonEscaping(a) && !(x.semKeep && x.callOnly(a) && st.unescapedFresh(v.S)) {
			continue
		}
		et := a.Type().(*types.Pointer).Elem()
		if kindOf(et) == KStruct {
			continue
		}
		if _, isArr := et.Underlying().(*types.Array); isArr {
			continue
		}
		cur := x.readComps(st, cellKey(et), et, v.S)
		if cur.K == KOpaque {
			continue
		}
		kept = append(kept, keep{et, v.S, cur})
	}
	defer func() {
		for _, k := range kept {
			x.writeComps(st, cellKey(k.t), k.t, k.ref, k.v)
		}
	}()
	x.epochs++
	st.epoch = x.epochs
	st.heap = map[string]*HArr{}
	st.lazy = map[string]*Lazy{}
	st.keepFn = nil
	st.hv++
	x.bumpAlloc(st)
	st.epochAlloc = st.alloc
}

// epochFor: the heap epoch (and its allocation watermark) a not yet materialised key belongs to: the current one unless an
// earlier "modifies allbut(...)" havoc spared the key
func (st *State) epochFor(key string) (int, string) {
	if st.keepFn != nil {
		if ep, al, ok := st.keepFn(key); ok {
			return ep, al
		}
	}
	return st.epoch, st.epochAlloc
}

// havocAllBut: like havocAll, but heap keys under the given prefixes keep their content
func (x *Exec) havocAllBut(st *State, keep []string) {
	oldHeap, oldLazy := st.heap, st.lazy
	prev, pe, pa := st.keepFn, st.epoch, st.epochAlloc
	x.havocAll(st)
	for k, h := range oldHeap {
		if keptKey(keep, k) {
			st.heap[k] = h
		}
	}
	for k, l := range oldLazy {
		if keptKey(keep, k) {
			st.lazy[k] = l
		}
	}
	st.keepFn = func(key string) (int, string, bool) {
		if !keptKey(keep, key) {
			return 0, "", false
		}
		if prev != nil {
			if ep, al, ok := prev(key); ok {
				return ep, al, true
			}
		}
		return pe, pa, true
	}
}

func (x *Exec) bumpAlloc(st *State) {
	na := x.decls.Fresh("alloc", "Int")
	x.decls.Axiom(na, sLe(st.alloc, na))
	st.alloc = na
}

func (x *Exec) allocRef(st *State) string {
	r := x.decls.Fresh("ref", "Int")
	x.decls.Axiom(r, sLt(st.alloc, r))
	x.decls.Axiom(r, sLt("0", r))
	st.alloc = r
	st.freshList = append(st.freshList, r)
	return r
}

// ---------- maps ----------

func mapKeySort(mt *types.Map) string {
	cs := comps(mt.Key())
	if len(cs) != 1 {
		panic(oos("map with compound key type %v", mt.Key()))
	}
	return cs[0].Sort
}

func (x *Exec) mapDom(st *State, mt types.Type) *HArr {
	m := mt.Underlying().(*types.Map)
	key := "MD." + typeName(mt)
	if h, ok := st.heap[key]; ok {
		return h
	}
	ep, _ := st.epochFor(key)
	base := fmt.Sprintf("%s@%d", sanitize(key), ep)
	srt := "(Array " + mapKeySort(m) + " Bool)"
	x.decls.Const(base, "(Array Int "+srt+")")
	// in the heap this base denotes, a map that contains a key is not empty (length base of the same epoch)
	lbase := fmt.Sprintf("%s@%d", sanitize("ML."+typeName(mt)), ep)
	x.decls.Const(lbase, "(Array Int Int)")
	x.decls.Pat("sel2:"+base, func(args []string) string {
		return sImp(sSel(sSel(base, args[0]), args[1]), sLe("1", sSel(lbase, args[0])))
	})
	h := &HArr{key: key, sort: srt, base: base}
	st.heap[key] = h
	return h
}

func (x *Exec) mapValArr(st *State, mt types.Type, c Comp) *HArr {
	m := mt.Underlying().(*types.Map)
	key := "MV." + typeName(mt) + c.Suffix
	if h, ok := st.heap[key]; ok {
		return h
	}
	ep, epAl := st.epochFor(key)
	base := fmt.Sprintf("%s@%d", sanitize(key), ep)
	srt := "(Array " + mapKeySort(m) + " " + c.Sort + ")"
	x.decls.Const(base, "(Array Int "+srt+")")
	h := &HArr{key: key, sort: srt, base: base}
	st.heap[key] = h
	if c.Role == "len" {
		// slice-valued map entries: 0 <= len <= cap <= limit (instantiated per read of the len component)
		capBase := strings.Replace(base, "$len", "$cap", 1)
		x.decls.Const(capBase, "(Array Int "+srt+")")
		x.decls.Pat("sel2:"+base, func(args []string) string {
			l := sSel(sSel(base, args[0]), args[1])
			cp := sSel(sSel(capBase, args[0]), args[1])
			return sAnd(sLe("0", l), sLe(l, cp), sLe(cp, capLimit))
		})
	}
	// value well-typedness
	if x.rangeFact("t", c, epAl) != "true" && c.Role == "" {
		al := epAl
		if ep < 0 {
			al = st.alloc
		}
		x.decls.Pat("sel2:"+base, func(args []string) string {
			f := x.rangeFact(sSel(sSel(base, args[0]), args[1]), c, al)
			if c.K == KRef {
				return sImp(sLe(args[0], al), f)
			}
			return f
		})
	}
	return h
}

func (x *Exec) mapLenArr(st *State, mt types.Type) *HArr {
	key := "ML." + typeName(mt)
	if h, ok := st.heap[key]; ok {
		return h
	}
	ep, _ := st.epochFor(key)
	base := fmt.Sprintf("%s@%d", sanitize(key), ep)
	x.decls.Const(base, "(Array Int Int)")
	x.decls.Pat("sel1:"+base, func(args []string) string {
		t := sSel(base, args[0])
		return sAnd(sLe("0", t), sLe(t, capLimit))
	})
	h := &HArr{key: key, sort: "Int", base: base}
	st.heap[key] = h
	return h
}

func (x *Exec) mapHas(st *State, m Val, k Val) string {
	x.noteRead("MD."+typeName(m.T), m.T)
	if mt, ok := m.T.Underlying().(*types.Map); ok {
		st.addKey(flatten(k)[0], mapKeySort(mt))
	}
	has := sAnd(sNot(sEq(m.S, "0")), sSel(x.mapDom(st, m.T).read(m.S), flatten(k)[0]))
	if !strings.Contains(has, "?") && has != "false" {
		// a map that contains a key is not empty
		st.assume(sImp(has, sLe("1", x.mapLenArr(st, m.T).read(m.S))))
	}
	return has
}

func (x *Exec) mapGetRaw(st *State, m Val, k Val) Val {
	mt := m.T.Underlying().(*types.Map)
	cs := comps(mt.Elem())
	terms := make([]string, len(cs))
	for i, c := range cs {
		terms[i] = sSel(x.mapValArr(st, m.T, c).read(m.S), flatten(k)[0])
	}
	x.noteRead("MV."+typeName(m.T), m.T)
	return unflatten(mt.Elem(), terms)
}

// mapGet implements m[k] with zero default
func (x *Exec) mapGet(st *State, m Val, k Val) (Val, string) {
	mt := m.T.Underlying().(*types.Map)
	has := x.mapHas(st, m, k)
	raw := flatten(x.mapGetRaw(st, m, k))
	z := flatten(zeroVal(mt.Elem()))
	x.declZero(mt.Elem())
	out := make([]string, len(raw))
	for i := range raw {
		out[i] = sIte(has, raw[i], z[i])
	}
	return unflatten(mt.Elem(), out), has
}

func (x *Exec) mapLen(st *State, m Val) string {
	x.noteRead("ML."+typeName(m.T), m.T)
	return sIte(sEq(m.S, "0"), "0", x.mapLenArr(st, m.T).read(m.S))
}

func (x *Exec) mapPut(st *State, m Val, k Val, v Val) {
	mt := m.T.Underlying().(*types.Map)
	kk := flatten(k)[0]
	has := x.mapHas(st, m, k)
	d := x.mapDom(st, m.T)
	d.write(m.S, sSto(d.read(m.S), kk, "true"))
	cs := comps(mt.Elem())
	vt := flatten(v)
	for i, c := range cs {
		a := x.mapValArr(st, m.T, c)
		a.write(m.S, sSto(a.read(m.S), kk, vt[i]))
	}
	l := x.mapLenArr(st, m.T)
	l.write(m.S, sIte(has, l.read(m.S), sAdd(l.read(m.S), "1")))
	st.bumpWrite(m.S, append([]string{kk}, vt...))
}

func (x *Exec) mapDelete(st *State, m Val, k Val) {
	kk := flatten(k)[0]
	has := x.mapHas(st, m, k)
	d := x.mapDom(st, m.T)
	l := x.mapLenArr(st, m.T)
	l.write(m.S, sIte(has, sSub(l.read(m.S), "1"), l.read(m.S)))
	d.write(m.S, sSto(d.read(m.S), kk, "false"))
	st.hv++
}

// ---------- big.Int ghost value ----------

func (x *Exec) bigval(st *State, ref string) string {
	return x.readComps(st, "G.bigval", mathInt, ref).S
}

func (x *Exec) setBigval(st *State, ref, v string) {
	x.writeComps(st, "G.bigval", mathInt, ref, Val{K: KInt, S: v})
}

// ---------- zero constants / strings ----------

func (x *Exec) declZero(t types.Type) {
	for _, c := range comps(t) {
		switch c.Sort {
		case "Str":
			x.decls.Const("str.empty", "Str")
			x.decls.Fun("strlen", []string{"Str"}, "Int")
			x.decls.Axiom("str.empty", "(= (strlen str.empty) 0)")
		case "Val":
			x.decls.Const("zero."+typeName(c.T), "Val")
		}
	}
}

func (x *Exec) strLit(s string) string {
	if s == "" {
		x.declZero(types.Typ[types.String])
		return "str.empty"
	}
	id, ok := x.strs[s]
	if !ok {
		id = len(x.strs) + 1
		x.strs[s] = id
	}
	n := fmt.Sprintf("str.lit%d", id)
	x.decls.Const(n, "Str")
	x.decls.Fun("strlen", []string{"Str"}, "Int")
	x.decls.Fun("strid", []string{"Str"}, "Int")
	x.decls.Axiom(n, fmt.Sprintf("(and (= (strlen %s) %d) (= (strid %s) %d))", n, len(s), n, id))
	return n
}

func (x *Exec) strlen(s string) string {
	x.decls.Fun("strlen", []string{"Str"}, "Int")
	x.decls.Pat("app:strlen", func(args []string) string {
		return sAnd(sLe("0", "(strlen "+args[0]+")"), sLe("(strlen "+args[0]+")", capLimit))
	})
	return "(strlen " + s + ")"
}

// byteAt models indexing into fixed-size array values
func (x *Exec) byteAt(v string, i string, et types.Type) string {
	c := comps(et)
	if len(c) != 1 {
		panic(oos("array with compound element type %v", et))
	}
	fn := "elemAt." + typeName(et)
	x.decls.Fun(fn, []string{"Val", "Int"}, c[0].Sort)
	if x.rangeFact("t", c[0], "") != "true" {
		cc := c[0]
		x.decls.Pat("app:"+fn, func(args []string) string { return x.rangeFact("("+fn+" "+args[0]+" "+args[1]+")", cc, "") })
	}
	return "(" + fn + " " + v + " " + i + ")"
}

func kindName(k Kind) string {
	return [...]string{"opaque", "bool", "int", "ref", "string", "array", "float", "slice", "struct", "tuple", "addr", "func"}[k]
}

// errConst: package-level error variables are treated as distinct non-nil constants (assumption A-ERR: never reassigned)
func (x *Exec) errConst(key string) Val {
	n := x.decls.Const("err."+sanitize(strings.TrimPrefix(key, "G.")), "Int")
	x.errGlobals[n] = true
	x.note("A-ERR: package-level error variables are distinct non-nil constants")
	return refVal(n, types.Universe.Lookup("error").Type())
}

func (x *Exec) noteErrGlobal(o *types.Var, v Val) {}

func (x *Exec) byteArrayFacts(hv string) {
	x.decls.Pat("sel2:"+hv, func(args []string) string {
		t := sSel(sSel(hv, args[0]), args[1])
		return sAnd(sLe("0", t), sLe(t, "255"))
	})
}

func (x *Exec) strbyteFacts() {
	x.decls.Pat("app:strbyte", func(args []string) string {
		t := "(strbyte " + args[0] + " " + args[1] + ")"
		return sAnd(sLe("0", t), sLe(t, "255"))
	})
}

// ---------- abstract content of byte slices ----------

type originInfo struct {
	val string
	t   types.Type
	n   int64
}

// contentOf gives the abstract content key (sort Val) of a slice.  For a slice made by slicing an array value it is an
// injective function of that value; otherwise it is a function of (array, offset, length) -- assumption A-BYTES: slices whose
// contents are compared or used as keys are not mutated in between (true for hashes, signatures and node ids).
func (x *Exec) contentOf(st *State, s Val) string {
	if s.K != KSlice {
		panic(oos("content of %s value", kindName(s.K)))
	}
	if o, ok := x.arrOrigin[s.Arr]; ok && s.Off == "0" && s.Len == sInt(o.n) {
		fn := "arrcontent." + typeName(o.t)
		x.decls.Fun(fn, []string{"Val"}, "Val")
		x.decls.Fun(fn+".inv", []string{"Val"}, "Val")
		t := "(" + fn + " " + o.val + ")"
		x.injective(fn)
		return t
	}
	x.decls.Fun("content", []string{"Int", "Int", "Int"}, "Val")
	x.note("A-BYTES: byte slices that are compared (bytes.Compare/Equal) or converted to map keys are treated as immutable values")
	return x.decls.Define("content", "Val", "(content "+s.Arr+" "+s.Off+" "+s.Len+")")
}

func (x *Exec) contentEq(st *State, a, b Val) string {
	oa, okA := x.arrOrigin[a.Arr]
	ob, okB := x.arrOrigin[b.Arr]
	if okA && okB && a.Off == "0" && b.Off == "0" && a.Len == sInt(oa.n) && b.Len == sInt(ob.n) {
		if oa.n != ob.n {
			return "false"
		}
		return sEq(oa.val, ob.val)
	}
	eq := sEq(x.contentOf(st, a), x.contentOf(st, b))
	// equal contents have equal lengths
	st.assume(sImp(eq, sEq(a.Len, b.Len)))
	return eq
}

// injective registers the instance fact inv(f(v)) = v for every ground application of the unary function f
func (x *Exec) injective(fn string) {
	x.decls.Pat("app:"+fn, func(args []string) string {
		return sEq("("+fn+".inv ("+fn+" "+args[0]+"))", args[0])
	})
}

// readTimeFacts: every reference stored in the heap at the moment of a read was allocated before that moment
func (x *Exec) readTimeFacts(st *State, t types.Type, terms []string) {
	for i, c := range compsOf(t) {
		if (c.K == KRef && c.Role == "") || c.Role == "arr" {
			if len(terms[i]) < 400 && !strings.Contains(terms[i], "?") && !isNumLit(terms[i]) {
				st.assume(sLe(terms[i], st.alloc))
			}
		}
	}
}
