package main

// The check driver: proof stage, bounded refutation, replay, known findings, evidence, protocol lines.

import (
	"encoding/json"
	"fmt"
	"os"
	"path/filepath"
	"sort"
	"strings"
	"time"
)

type Group struct {
	Name      string
	Kind      string
	Fn        string
	Where     string
	Instances []*Oblig
	Status    string // discharged | refuted | undecided | vacuous | side-failed
	Solver    string
	Secs      float64
	Model     string
	R1        string
	Replay    string
	Finding   *Finding
	r         *FuncResult
	r1Model   map[string]string
	Note      string
}

func groupObligations(results []*FuncResult) []*Group {
	by := map[string]*Group{}
	var order []*Group
	for _, r := range results {
		for _, o := range r.Obs {
			g, ok := by[o.Name]
			if !ok {
				g = &Group{Name: o.Name, Kind: o.Kind, Fn: o.Fn, Where: o.Where}
				by[o.Name] = g
				order = append(order, g)
			}
			g.Instances = append(g.Instances, o)
		}
	}
	for _, g := range order {
		g.evaluate()
	}
	return order
}

func (g *Group) evaluate() {
	first := g.Instances[0]
	solv := map[string]bool{}
	for _, o := range g.Instances {
		g.Secs += o.Res.Secs
		solv[o.Res.Solver] = true
	}
	var ss []string
	for s := range solv {
		ss = append(ss, s)
	}
	sort.Strings(ss)
	g.Solver = strings.Join(ss, "+")
	switch {
	case first.Cover, first.Canary:
		// vacuity guards: the assumptions of the function (cover) / of at least one returning path (canary) must not be
		// contradictory.  Confirmed by a model (sat); a guard fails only when the solver PROVES the contradiction (unsat everywhere).
		g.Status = "vacuous"
		for _, o := range g.Instances {
			if o.Res.Status == "sat" {
				g.Status = "discharged"
				g.Note = "confirmed by a model"
			}
		}
		if g.Status != "discharged" {
			for _, o := range g.Instances {
				if o.Res.Status != "unsat" {
					g.Status = "discharged"
					g.Note = "not refuted within the time limit (no model found either)"
				}
			}
		}
	default:
		g.Status = "discharged"
		for _, o := range g.Instances {
			switch o.Res.Status {
			case "unsat":
			case "sat":
				g.Status = "refuted"
				g.Model = o.Res.Output
				g.Where = o.Where
			default:
				if g.Status != "refuted" {
					g.Status = "undecided"
					g.Model = o.Res.Output
				}
			}
		}
	}
}

type Evidence struct {
	PropertyID  string                 `json:"property_id"`
	Tier        string                 `json:"tier"`
	Seed        int                    `json:"seed"`
	Level       string                 `json:"level"`
	Coverage    map[string]interface{} `json:"coverage"`
	Assumptions []string               `json:"assumptions"`
	WallS       float64                `json:"wall_s"`
	Violations  int                    `json:"violations"`
}

func runCheck(eng *Engine, prop, tier string, verbose, noReplay bool) int {
	t0 := time.Now()
	eng.loadContracts()
	pats := eng.packagesFor(prop)
	evPath := filepath.Join(eng.verif, "evidence", prop+".json")
	if d := os.Getenv("GOVC_EVIDENCE_DIR"); d != "" {
		evPath = filepath.Join(d, prop+".json") // self-tests on mutated trees must not overwrite the real evidence
	}
	os.MkdirAll(filepath.Dir(evPath), 0755)
	fail := func(msg string) int {
		// a broken check must not look like success: report it as a violation of the machinery's own obligation
		rp := writeReplay(eng, prop, "machinery", map[string]interface{}{"obligation": "check-ran", "error": msg})
		fmt.Printf("VIOLATION property=%s replay=%s no-failing-input-found\n", prop, rp)
		fmt.Println("  check could not run:", msg)
		return 1
	}
	if len(pats) == 0 {
		return fail("no contracts tagged " + prop + " found under " + eng.repo)
	}
	if err := eng.load(pats); err != nil {
		return fail("cannot load packages: " + err.Error())
	}
	eng.resolveGuards()
	findings := loadFindings(eng.verif)
	eng.excuses = map[string]string{}
	for _, f := range findings {
		if f.Status == "open" && f.Excuse != "" {
			eng.excuses[f.Obligation] = f.Excuse
		}
	}
	// functions and lemmas under contract for this property
	var keys []string
	for _, k := range eng.cs.sortedKeys() {
		c := eng.cs.Funcs[k]
		if hasProp(c.Props, prop) && !c.Trusted {
			keys = append(keys, k)
		}
	}
	var results []*FuncResult
	type fnInfo struct {
		Key, Where    string
		Instrs, Paths int
	}
	var fns []fnInfo
	timeout := timeoutFor(tier)
	tGen := time.Now()
	for _, k := range keys {
		for _, view := range eng.cs.Funcs[k].Views() {
			tf := time.Now()
			eng.curView = view
			r := eng.verifyFunc(k, eng.cs.Funcs[k], -1)
			eng.curView = ""
			if verbose {
				fmt.Printf("  gen %-70s %.2fs paths=%d obs=%d side=%d/%d view=%q\n", k, time.Since(tf).Seconds(), r.Paths, len(r.Obs), r.Side.Proved, r.Side.Asked, view)
			}
			results = append(results, r)
			fns = append(fns, fnInfo{k, r.Where, r.Instrs, r.Paths})
		}
	}
	// dependency closure: the proofs above rely on the contracts of the functions they call (in code or in specs); every such
	// contract that is not an assumed one is verified here too, so that a change inside a callee that breaks the callee's
	// contract fails THIS property's check as well (not only the check of the property the callee is tagged with)
	done := map[string]bool{}
	for _, k := range keys {
		done[k] = true
	}
	var deps []string
	for {
		var more []string
		for _, k := range eng.cs.sortedKeys() {
			c := eng.cs.Funcs[k]
			if c.used && !c.Trusted && !done[k] {
				if fn := eng.findFunc(k); fn != nil && fn.Blocks != nil {
					more = append(more, k)
				}
			}
		}
		if len(more) == 0 {
			break
		}
		for _, k := range more {
			done[k] = true
			for _, view := range eng.cs.Funcs[k].Views() {
				tf := time.Now()
				eng.curView = view
				r := eng.verifyFunc(k, eng.cs.Funcs[k], -1)
				eng.curView = ""
				if verbose {
					fmt.Printf("  gen %-70s %.2fs paths=%d obs=%d (dependency) view=%q\n", k, time.Since(tf).Seconds(), r.Paths, len(r.Obs), view)
				}
				results = append(results, r)
				fns = append(fns, fnInfo{k, r.Where, r.Instrs, r.Paths})
			}
			deps = append(deps, k)
		}
	}
	usedLemma := func(l *Contract) bool { return l.used }
	for _, l := range eng.cs.Lemmas {
		if hasProp(l.Props, prop) || usedLemma(l) {
			tf := time.Now()
			r := eng.verifyLemma(l, -1)
			if verbose {
				fmt.Printf("  gen %-70s %.2fs obs=%d\n", l.Key, time.Since(tf).Seconds(), len(r.Obs))
			}
			results = append(results, r)
			fns = append(fns, fnInfo{l.Key, r.Where, 0, 0})
		}
	}
	for _, fl := range eng.cs.FloatLemmas {
		if hasProp(fl.Props, prop) || fl.used {
			r := eng.verifyFloatLemma(fl, timeout)
			results = append(results, r)
			fns = append(fns, fnInfo{r.Key, r.Where, 0, 0})
		}
	}
	genSecs := time.Since(tGen).Seconds()
	tSolve := time.Now()
	dischargeAll(results, timeout, workers())
	solveSecs := time.Since(tSolve).Seconds()
	groups := groupObligations(results)

	// bounded refutation + replay for failures
	byKey := map[string]*FuncResult{}
	for _, r := range results {
		byKey[r.Key] = r
	}
	var failed []*Group
	for _, g := range groups {
		g.r = byKey[g.Fn]
		if g.Status != "discharged" {
			failed = append(failed, g)
		}
	}
	if len(failed) > 0 {
		refuteBounded(eng, failed, timeout)
	}
	violations := 0
	var lines []string
	knownSeen := map[string]bool{}
	for _, g := range failed {
		// known finding?
		if f := matchFinding(findings, prop, g.Name); f != nil {
			g.Finding = f
			un := findGroup(groups, g.Name+"|unexcused")
			if un != nil && un.Status == "discharged" {
				if !knownSeen[f.Obligation] {
					knownSeen[f.Obligation] = true
					lines = append(lines, fmt.Sprintf("KNOWN-FINDING: property=%s %s [%s]", prop, f.What, f.Obligation))
				}
				continue
			}
		}
		if strings.HasSuffix(g.Name, "|unexcused") {
			// reported through its base obligation unless the base is fine
			base := findGroup(groups, strings.TrimSuffix(g.Name, "|unexcused"))
			if base != nil && base.Status != "discharged" {
				// fallthrough: a different violation of a known-finding obligation
			}
		}
		violations++
		rp, reproduced := replayGroup(eng, prop, g, byKey[g.Fn], noReplay)
		suffix := ""
		if !reproduced {
			suffix = " no-failing-input-found"
		}
		lines = append(lines, fmt.Sprintf("VIOLATION property=%s replay=%s%s", prop, rp, suffix))
		lines = append(lines, fmt.Sprintf("  obligation %s [%s] %s at %s", g.Name, g.Status, g.Kind, g.Where))
	}

	// evidence
	nObl, nDis := 0, 0
	var perObl []map[string]interface{}
	bySolver := map[string]int{}
	var samples []interface{}
	for _, g := range groups {
		excused := g.Finding != nil && g.Status != "discharged"
		if excused {
			if un := findGroup(groups, g.Name+"|unexcused"); un == nil || un.Status != "discharged" {
				excused = false
			}
		}
		// the obligation of an open known finding is claimed only outside the recorded failing inputs (its |unexcused form, counted
		// on its own line); the unrestricted form is listed as a known finding and not counted as a proof obligation
		if !excused {
			nObl++
			if g.Status == "discharged" {
				nDis++
			}
		}
		bySolver[g.Solver]++
		rec := map[string]interface{}{"name": g.Name, "kind": g.Kind, "status": g.Status, "solver": g.Solver, "secs": round3(g.Secs), "paths": len(g.Instances), "where": g.Where}
		if excused {
			rec["known_finding"] = g.Finding.What
		}
		if g.Note != "" {
			rec["note"] = g.Note
		}
		if g.R1 != "" {
			rec["bounded_refutation"] = g.R1
		}
		perObl = append(perObl, rec)
	}
	for _, r := range results {
		for _, o := range r.Obs {
			if len(samples) < 3 && o.Kind == "ensures" && o.Res.Status == "unsat" {
				q := r.decls.render(r.x.buildQuery(o))
				if len(q) > 6000 {
					q = q[:6000] + "\n; ... truncated"
				}
				samples = append(samples, map[string]interface{}{"obligation": o.Name, "smtlib": q})
			}
		}
	}
	if len(samples) == 0 {
		for _, g := range groups {
			if len(samples) < 3 {
				samples = append(samples, map[string]interface{}{"obligation": g.Name, "status": g.Status})
			}
		}
	}
	assume := map[string]bool{}
	sideAsked, sideProved := 0, 0
	var wraps []string
	for _, r := range results {
		for _, n := range r.Notes {
			assume[n] = true
		}
		sideAsked += r.Side.Asked
		sideProved += r.Side.Proved
		for n, ok := range r.NoWrap {
			if !ok {
				wraps = append(wraps, n)
			}
		}
		if r.OOS != "" {
			assume["out-of-subset: "+r.Key+": "+r.OOS] = true
		}
	}
	sort.Strings(wraps)
	// entry preconditions: a verified function whose contract has requires clauses and that no function verified in this run
	// calls -- nothing checks that its callers in the repository establish them
	for _, r := range results {
		if c := eng.cs.Funcs[r.Key]; c != nil && !c.used && len(c.Requires) > 0 {
			var srcs []string
			for _, q := range c.Requires {
				srcs = append(srcs, q.Src)
			}
			assume["entry precondition (no verified caller establishes it): "+r.Key+": "+strings.Join(srcs, " && ")] = true
		}
	}
	for _, k := range eng.cs.Assumed {
		if eng.cs.Funcs[k].used {
			assume["trusted contract (assumed, never checked): "+k] = true
		}
	}
	for _, a := range []string{
		"govc itself (SSA->SMT translation, frame inference, spec evaluator) is unverified; guarded by canaries, cover checks and the must-fail corpus",
		"go/packages + go/ssa (x/tools v0.29.0) semantics of Go; solvers z3 4.8.12, z3 5.1.0, cvc5 1.0.3",
		"slice capacities and map sizes are below 2^48",
		"T1/T2: logging, metrics, fmt and String()/Hex() formatting have no effect on modelled state",
		"integer arithmetic is exact: Go wrap-around semantics unless a no-wrap side query proves the mathematical result in range",
	} {
		assume[a] = true
	}
	var assumptions []string
	for a := range assume {
		assumptions = append(assumptions, a)
	}
	sort.Strings(assumptions)
	solverTimes := map[string]interface{}{}
	solverStatMu.Lock()
	for s, st := range solverStats {
		solverTimes[s] = map[string]interface{}{"queries": st.N, "secs": round3(st.Secs)}
	}
	solverStatMu.Unlock()
	var findingRecs []interface{}
	for _, f := range findings {
		if f.Property == prop {
			findingRecs = append(findingRecs, f)
		}
	}
	ev := Evidence{PropertyID: prop, Tier: tier, Seed: solverSeed, Level: "proof", WallS: round3(time.Since(t0).Seconds()), Violations: violations, Assumptions: assumptions,
		Coverage: map[string]interface{}{
			"obligations":              nObl,
			"discharged":               nDis,
			"checker_cmd":              fmt.Sprintf("bin/govc check %s --tier %s --repo %s", prop, tier, eng.repo),
			"trusted_base":             []string{"govc VC generator", "go/ssa (x/tools v0.29.0)", "z3 4.8.12", "z3 5.1.0 (z3-new)", "cvc5 1.0.3", "assumed contracts listed under assumptions"},
			"functions_under_contract": fns,
			"dependencies_verified":    deps,
			"obligation_records":       perObl,
			"by_backend":               bySolver,
			"solver_time":              solverTimes,
			"generation_secs":          round3(genSecs),
			"solving_secs":             round3(solveSecs),
			"load_secs":                round3(eng.loadSecs),
			"side_queries":             map[string]int{"asked": sideAsked, "proved": sideProved},
			"possible_wraparound":      wraps,
			"known_findings":           findingRecs,
			"contract_files":           relFiles(eng, eng.cs.Files),
			"samples":                  samples,
			"packages":                 pats,
		}}
	data, _ := json.MarshalIndent(ev, "", " ")
	os.WriteFile(evPath, data, 0644)

	for _, l := range lines {
		fmt.Println(l)
	}
	fmt.Printf("%s: %d functions/lemmas, %d obligations, %d discharged, %d violations, %.1fs (load %.1fs, gen %.1fs, solve %.1fs)\n",
		prop, len(fns), nObl, nDis, violations, time.Since(t0).Seconds(), eng.loadSecs, genSecs, solveSecs)
	if verbose {
		for _, g := range groups {
			fmt.Printf("  %-90s %-11s %-12s %.2fs x%d\n", g.Name, g.Status, g.Solver, g.Secs, len(g.Instances))
			if g.Status != "discharged" {
				for _, o := range g.Instances {
					fmt.Printf("      instance: %s %v\n", o.Res.Status, o.Res.Tried)
				}
			}
		}
	}
	if violations > 0 {
		return 1
	}
	return 0
}

func relFiles(eng *Engine, fs []string) []string {
	var out []string
	for _, f := range fs {
		out = append(out, f)
	}
	sort.Strings(out)
	return out
}

func round3(f float64) float64 { return float64(int(f*1000+0.5)) / 1000 }

func findGroup(gs []*Group, name string) *Group {
	for _, g := range gs {
		if g.Name == name {
			return g
		}
	}
	return nil
}

func matchFinding(fs []Finding, prop, name string) *Finding {
	name = strings.TrimSuffix(name, "|unexcused")
	for i := range fs {
		// obligation names are global: a finding recorded under one property also covers the same obligation when another
		// property's check verifies the function (dependency closure, functions serving several properties)
		if fs[i].Status == "open" && fs[i].Obligation == name {
			return &fs[i]
		}
	}
	return nil
}

// refuteBounded re-runs the functions of failed obligations in bounded mode (R1) to obtain genuine counterexamples
func refuteBounded(eng *Engine, failed []*Group, timeout int) {
	byFn := map[string][]*Group{}
	for _, g := range failed {
		if g.Kind == "subset" || g.Kind == "target" || g.Status == "refuted" {
			continue
		}
		byFn[g.Fn] = append(byFn[g.Fn], g)
	}
	for key, gs := range byFn {
		var r *FuncResult
		if strings.HasPrefix(key, "lemma:") {
			for _, l := range eng.cs.Lemmas {
				if l.Key == key {
					r = eng.verifyLemma(l, 3)
				}
			}
		} else if con := eng.cs.Funcs[key]; con != nil {
			r = eng.verifyFunc(key, con, 3)
		}
		if r == nil {
			continue
		}
		want := map[string]*Group{}
		for _, g := range gs {
			want[g.Name] = g
		}
		var keep []*Oblig
		for _, o := range r.Obs {
			if _, ok := want[o.Name]; ok && !o.Cover && !o.Canary {
				keep = append(keep, o)
			}
		}
		r.Obs = keep
		r.discharge(timeout, workers())
		for _, o := range keep {
			g := want[o.Name]
			if o.Res.Status == "sat" {
				g.R1 = "sat (bound 3): genuine counterexample"
				if g.r1Model == nil {
					g.r1Model = modelValues(r, o)
				}
				g.Status = "refuted"
				g.Model = o.Res.Output
				g.Where = o.Where
			} else if g.R1 == "" {
				g.R1 = o.Res.Status + " (bound 3)"
			}
		}
	}
}

func writeReplay(eng *Engine, prop, name string, body map[string]interface{}) string {
	dir := filepath.Join(eng.verif, "evidence", "replay", prop)
	if d := os.Getenv("GOVC_EVIDENCE_DIR"); d != "" {
		dir = filepath.Join(d, "replay", prop)
	}
	os.MkdirAll(dir, 0755)
	p := filepath.Join(dir, sanitize(name)+".json")
	data, _ := json.MarshalIndent(body, "", " ")
	os.WriteFile(p, data, 0644)
	return p
}

// replayGroup writes the replay file for a failed obligation and, where a replay adapter exists, runs it on the real code
func replayGroup(eng *Engine, prop string, g *Group, r *FuncResult, noReplay bool) (string, bool) {
	body := map[string]interface{}{
		"property":           prop,
		"obligation":         g.Name,
		"kind":               g.Kind,
		"status":             g.Status,
		"where":              g.Where,
		"solver":             g.Solver,
		"solver_output":      truncate(g.Model, 4000),
		"bounded_refutation": g.R1,
	}
	reproduced := false
	if g.r1Model != nil {
		body["model"] = g.r1Model
	} else if r != nil {
		for _, o := range g.Instances {
			if o.Res.Status == "sat" {
				if m := modelValues(r, o); m != nil {
					body["model"] = m
					g.r1Model = m
				}
				break
			}
		}
	}
	if !noReplay {
		if out, ok, ran := runReplay(eng, prop, g); ran {
			body["replay_output"] = truncate(out, 6000)
			body["reproduced_on_real_code"] = ok
			reproduced = ok
		} else {
			body["replay_output"] = "no replay adapter for this obligation"
		}
	}
	return writeReplay(eng, prop, g.Name, body), reproduced
}

func truncate(s string, n int) string {
	if len(s) > n {
		return s[:n] + "...(truncated)"
	}
	return s
}
