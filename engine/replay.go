package main

// Replay of counterexamples on the real code: model extraction with (get-value) and per-function adapters
// (in-package Go tests kept under /verif/replays/) that rebuild the inputs from the model, call the real function
// and evaluate the property oracle on the real result.

import (
	"encoding/json"
	"fmt"
	"os"
	"os/exec"
	"path/filepath"
	"strings"
	"time"
)

// modelValues re-solves a refuted obligation asking for the values of the function's parameters and let-bound names
func modelValues(r *FuncResult, o *Oblig) map[string]string {
	if r == nil || r.x == nil || len(r.x.modelTerms) == 0 {
		return nil
	}
	var names []string
	for n := range r.x.modelTerms {
		names = append(names, n)
	}
	sortStrings(names)
	q := r.x.buildQuery(o)
	for _, n := range names {
		q.Values = append(q.Values, r.x.modelTerms[n])
	}
	text := r.decls.render(q)
	res := solveText(text, 10000)
	if res.Status != "sat" {
		return nil
	}
	vals := parseValues(res.Output)
	out := map[string]string{}
	for i, n := range names {
		if i < len(vals) {
			out[n] = normalizeNum(vals[i])
		}
	}
	return out
}

func normalizeNum(s string) string {
	s = strings.TrimSpace(s)
	if strings.HasPrefix(s, "(- ") && strings.HasSuffix(s, ")") {
		return "-" + strings.TrimSpace(s[3:len(s)-1])
	}
	return s
}

// adapterFor finds the replay adapter of a function key: /verif/replays/<pkg path>/<sanitized key>_replay_test.go
func adapterFor(eng *Engine, fnKey string) (file, pkgDir string) {
	i := strings.Index(fnKey, ".")
	if strings.HasPrefix(fnKey, "lemma:") {
		return "", ""
	}
	// package suffix is everything before the first ".(" or the last "." of the function name
	pk := fnKey
	if j := strings.Index(fnKey, ".("); j >= 0 {
		pk = fnKey[:j]
	} else if j := strings.LastIndex(fnKey, "."); j >= 0 {
		pk = fnKey[:j]
	}
	_ = i
	name := sanitize(strings.TrimPrefix(fnKey, pk+"."))
	f := filepath.Join(eng.verif, "replays", pk, "zz_"+name+"_replay_test.go")
	if _, err := os.Stat(f); err == nil {
		return f, pk
	}
	return "", ""
}

// runReplay returns (output, reproduced, ran)
func runReplay(eng *Engine, prop string, g *Group) (string, bool, bool) {
	file, pk := adapterFor(eng, g.Fn)
	if file == "" {
		return "", false, false
	}
	model := map[string]string{}
	for _, o := range g.Instances {
		if o.Res.Status == "sat" && g.r != nil {
			if m := modelValues(g.r, o); m != nil {
				model = m
				break
			}
		}
	}
	if g.r1Model != nil {
		model = g.r1Model
	}
	tmp, err := os.MkdirTemp("", "govc-replay-")
	if err != nil {
		return err.Error(), false, true
	}
	defer os.RemoveAll(tmp)
	mj, _ := json.Marshal(map[string]interface{}{"obligation": g.Name, "model": model})
	mpath := filepath.Join(tmp, "model.json")
	os.WriteFile(mpath, mj, 0644)
	// scratch copy of the repository (its own tests write under ../../testdata, so replays never run inside /repo)
	work := filepath.Join(tmp, "repo")
	if out, err := exec.Command("rsync", "-a", "--exclude", ".git", "--exclude", "/testdata", eng.repo+"/", work+"/").CombinedOutput(); err != nil {
		return "rsync failed: " + string(out), false, true
	}
	data, _ := os.ReadFile(file)
	os.WriteFile(filepath.Join(work, pk, filepath.Base(file)), data, 0644)
	cmd := exec.Command("bash", "-c", fmt.Sprintf("ulimit -v 8000000; cd %s && go test -v -tags verif -vet=off -count=1 -timeout 90s -run TestVerifReplay ./%s 2>&1", work, pk))
	cmd.Env = append(os.Environ(), "GOFLAGS=-mod=mod", "GOPROXY=off", "GOSUMDB=off", "GOTOOLCHAIN=local", "GOVC_MODEL="+mpath, "GOVC_OBLIGATION="+g.Name)
	done := make(chan struct{})
	var out []byte
	go func() { out, _ = cmd.CombinedOutput(); close(done) }()
	select {
	case <-done:
	case <-time.After(150 * time.Second):
		if cmd.Process != nil {
			cmd.Process.Kill()
		}
		<-done
	}
	s := string(out)
	return "model: " + string(mj) + "\n" + s, strings.Contains(s, "CONTRACT VIOLATED"), true
}
