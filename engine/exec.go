package main

// Path-based symbolic executor over go/ssa with loop cutting at invariants and modular calls.

import (
	"fmt"
	"go/constant"
	"go/token"
	"go/types"
	"math/big"
	"sort"
	"strings"

	"golang.org/x/tools/go/ssa"
)

const maxPaths = 3000
const maxInlineDepth = 4

type Oblig struct {
	Name     string
	Kind     string
	Fn       string
	Where    string
	PC       []PCItem
	Goal     *F
	Idx      []IdxT
	Keys     []KeyT
	Side     bool // side obligation (no-wrap / convert-range): recorded, not a violation by itself
	Cover    bool // satisfiability check (vacuity guard): expected sat
	Canary   bool // must be refuted
	Excuse   string
	Values   []string // terms to query from a model
	ValNames []string
	Res      SolveResult
	Trace    []string
	Stage    string // proof | R1
	hasQ     bool
	raw      string // pre-rendered SMT text (float lemmas)
	timeout  int    // own time limit in ms (0 = the tier's)
}

type Frame struct {
	fn      *ssa.Function
	con     *Contract
	parent  *Frame
	depth   int
	ret     func(st *State, results []Val)
	prefix  string         // obligation name prefix for inlined frames
	pre     *State         // state at entry (for old())
	names   map[string]Val // let-bound names and parameters visible to specs
	nopanic bool
	inSpec  bool
}

type Exec struct {
	eng           *Engine
	decls         *Decls
	fn            *ssa.Function
	con           *Contract
	key           string
	obs           []*Oblig
	paths         int
	bound         int // -1: proof mode; >=0: bounded refutation mode
	fresh         int
	epochs        int
	tags          map[string]int
	strs          map[string]int
	keyTypes      map[string]types.Type
	arrStorage    map[string]bool
	labels        map[ssa.Instruction]string
	loops         map[*ssa.Function]*LoopInfo
	notes         map[string]bool
	proveCache    map[string]bool
	sideStats     struct{ asked, proved int }
	readLog       *[]readRec
	errGlobals    map[string]bool
	noWrapRec     map[string]bool // name -> proved on all paths
	curFrame      *Frame
	funcCells     map[string]Val
	iterMap       map[ssa.Value]Val
	alloc0        string
	canaryDone    bool
	escCache      map[*ssa.Alloc]bool
	callOnlyCache map[*ssa.Alloc]bool
	semKeep       bool                  // havocAll runs for a call: cells of fresh objects that never escaped survive it
	rebind        map[string]string     // invariant-only names re-bound to renamed locals (copied from Engine.rebind at creation)
	rebindOK      bool                  // evaluating a loop invariant of the function under contract: an unknown local name may be re-bound
	arrOrigin     map[string]originInfo // backing arrays created by slicing an array value
	alias         map[string][]string   // backing-array term -> arrays it may denote (append results)
	unfoldDepth   map[string]int
	curKeys       []KeyT
	matContext    string
	probeVar      string
	idxLog        *[]IdxT   // collector of (index, sequence) pairs read while evaluating a quantifier body
	probe         *[]SeqRef // collector of sequences indexed by a probe variable (see seqsOf)
	noWD          bool      // suppress well-definedness obligations (while assuming the function's own requires)
	inQBody       int       // >0 while a quantifier body is being evaluated (frozen state)
	lastPre       []string  // rendered preconditions of the pure application being processed
	lastPreQ      bool
	sideFacts     map[string][]string // trigger symbol -> contract instances (requires ==> ensures) of pure applications made inside quantifier bodies
	view          string              // proof view being verified (see Clause.Group)
	curGuard      string              // guard of the spec sub-expression being evaluated (see SpecEnv.g)
	withQ         bool                // include raw quantified assumptions in queries (second attempt)
	modelTerms    map[string]string   // names (parameters, lets) -> scalar terms whose values are asked from a model
}

func (x *Exec) recordModelTerm(name string, v Val) {
	if x.modelTerms == nil {
		x.modelTerms = map[string]string{}
	}
	switch v.K {
	case KInt, KBool, KRef:
		if v.S != "" && !strings.Contains(v.S, "?") {
			x.modelTerms[name] = v.S
		}
	case KSlice:
		x.modelTerms["len("+name+")"] = v.Len
		x.modelTerms["cap("+name+")"] = v.Cap
		// the first elements of integer slices (byte strings): enough to rebuild short inputs for a replay on the real code
		if st, ok := v.T.Underlying().(*types.Slice); ok && !strings.Contains(v.Arr, "?") {
			if b, ok := st.Elem().Underlying().(*types.Basic); ok && b.Info()&types.IsInteger != 0 {
				base := fmt.Sprintf("%s@%d", sanitize(elemKey(st.Elem())), 0)
				x.decls.Const(base, "(Array Int (Array Int Int))")
				for i := 0; i < 48; i++ {
					x.modelTerms[fmt.Sprintf("%s[%d]", name, i)] = sSel(sSel(base, v.Arr), sAdd(v.Off, sInt(int64(i))))
				}
			}
		}
	}
}

type readRec struct {
	key string
	t   types.Type
}

func (x *Exec) noteRead(key string, t types.Type) {
	if x.readLog != nil {
		*x.readLog = append(*x.readLog, readRec{key, t})
	}
}

func (x *Exec) note(s string) { x.notes[s] = true }

func newExec(eng *Engine, fn *ssa.Function, con *Contract, key string, bound int) *Exec {
	return &Exec{rebind: eng.rebind, view: eng.curView, eng: eng, decls: newDecls(), fn: fn, con: con, key: key, bound: bound, tags: map[string]int{}, strs: map[string]int{},
		keyTypes: map[string]types.Type{}, arrStorage: map[string]bool{}, labels: map[ssa.Instruction]string{}, loops: map[*ssa.Function]*LoopInfo{},
		notes: map[string]bool{}, alias: map[string][]string{}, arrOrigin: map[string]originInfo{}, escCache: map[*ssa.Alloc]bool{}, iterMap: map[ssa.Value]Val{}, proveCache: map[string]bool{}, errGlobals: map[string]bool{}, noWrapRec: map[string]bool{}}
}

// ---------- labels ----------

func (x *Exec) label(fn *ssa.Function, in ssa.Instruction, kind string) string {
	if l, ok := x.labels[in]; ok {
		return l
	}
	// number all instructions of this function by kind
	counts := map[string]int{}
	for _, b := range fn.Blocks {
		for _, i := range b.Instrs {
			k := instrKind(i)
			if k == "" {
				continue
			}
			x.labels[i] = fmt.Sprintf("%s#%d", k, counts[k])
			counts[k]++
		}
	}
	if l, ok := x.labels[in]; ok {
		return l
	}
	return kind + "#?"
}

func calleeName(c *ssa.CallCommon) string {
	if c.IsInvoke() {
		return c.Method.Name()
	}
	if f := c.StaticCallee(); f != nil {
		return f.Name()
	}
	if b, ok := c.Value.(*ssa.Builtin); ok {
		return b.Name()
	}
	return "dyn"
}

func instrKind(i ssa.Instruction) string {
	switch v := i.(type) {
	case *ssa.IndexAddr, *ssa.Index:
		return "bounds:index"
	case *ssa.Slice:
		return "bounds:slice"
	case *ssa.FieldAddr, *ssa.Field:
		return "nil-deref:field"
	case *ssa.UnOp:
		if v.Op == token.MUL {
			return "nil-deref:load"
		}
		if v.Op == token.SUB {
			return "no-wrap:neg"
		}
		return ""
	case *ssa.Store:
		return "nil-deref:store"
	case *ssa.BinOp:
		switch v.Op {
		case token.ADD:
			return "no-wrap:add"
		case token.SUB:
			return "no-wrap:sub"
		case token.MUL:
			return "no-wrap:mul"
		case token.QUO, token.REM:
			return "div-by-zero"
		case token.SHL:
			return "no-wrap:shl"
		}
		return ""
	case *ssa.Convert:
		return "convert-range"
	case *ssa.Call:
		return "call:" + calleeName(&v.Call)
	case *ssa.Defer:
		return "defer:" + calleeName(&v.Call)
	case *ssa.Go:
		return "go:" + calleeName(&v.Call)
	case *ssa.Panic:
		return "panic"
	case *ssa.TypeAssert:
		return "type-assert"
	case *ssa.MapUpdate:
		return "nil-map-write"
	case *ssa.MakeSlice:
		return "make"
	case *ssa.Return:
		return "return"
	}
	return ""
}

func (x *Exec) where(in ssa.Instruction) string {
	if in == nil {
		return ""
	}
	p := in.Pos()
	if !p.IsValid() {
		// find a neighbour with a position
		if b := in.Block(); b != nil {
			for _, i := range b.Instrs {
				if i.Pos().IsValid() {
					p = i.Pos()
					break
				}
			}
		}
	}
	if !p.IsValid() {
		return ""
	}
	pos := x.eng.prog.Fset.Position(p)
	f := pos.Filename
	if i := strings.Index(f, x.eng.repo+"/"); i == 0 {
		f = f[len(x.eng.repo)+1:]
	}
	return fmt.Sprintf("%s:%d", f, pos.Line)
}

// ---------- obligations ----------

func (x *Exec) emit(fr *Frame, st *State, name, kind string, goal *F, in ssa.Instruction) *Oblig {
	o := &Oblig{Name: x.key + "#" + fr.prefix + name, Kind: kind, Fn: x.key, Where: x.where(in), PC: st.pc[:len(st.pc):len(st.pc)], Goal: goal, Idx: st.idx[:len(st.idx):len(st.idx)], Keys: st.keys[:len(st.keys):len(st.keys)], Trace: st.trace[:len(st.trace):len(st.trace)]}
	x.obs = append(x.obs, o)
	if ex, ok := x.eng.excuses[o.Name]; ok && fr.pre != nil && !strings.HasSuffix(name, "|unexcused") {
		// an open known finding: the same obligation once more, outside the recorded failing inputs (pre-state predicate `excuse`).
		// If the base obligation fails and this one holds, only the recorded finding is present.
		func() {
			defer func() {
				if r := recover(); r != nil {
					x.note(fmt.Sprintf("excuse of known finding %s could not be evaluated: %v", o.Name, r))
				}
			}()
			e, err := parseSpecExpr(ex)
			if err != nil {
				panic(err)
			}
			s2 := st.clone()
			env := x.specEnvAt(fr, fr.pre, fr.pre, nil)
			s2.assume(sNot(env.evalBool(e).S))
			u := &Oblig{Name: o.Name + "|unexcused", Kind: kind, Fn: x.key, Where: o.Where, PC: s2.pc[:len(s2.pc):len(s2.pc)], Goal: goal, Idx: o.Idx, Keys: o.Keys, Trace: o.Trace}
			x.obs = append(x.obs, u)
		}()
	}
	return o
}

// check emits an obligation and then assumes the goal on the continuing path
func (x *Exec) check(fr *Frame, st *State, name, kind string, goal string, in ssa.Instruction) {
	if goal == "true" {
		return
	}
	x.emit(fr, st, name, kind, atom(goal), in)
	st.assume(goal)
}

// implicit panic site: obligation under nopanic, otherwise assumed (the continuing path did not panic)
func (x *Exec) guard(fr *Frame, st *State, in ssa.Instruction, kind string, cond string) {
	if cond == "true" {
		return
	}
	if fr.nopanic {
		x.check(fr, st, x.label(fr.fn, in, kind), kind, cond, in)
	} else {
		st.assume(cond)
	}
}

// prove asks the solver synchronously whether goal follows from the plain (quantifier-free) part of the path condition
func (x *Exec) prove(st *State, goal string) bool {
	if goal == "true" {
		return true
	}
	if goal == "false" {
		return false
	}
	o := &Oblig{PC: st.pc, Goal: atom(goal), Idx: st.idx, Keys: st.keys}
	q := x.buildQuery(o)
	key := strings.Join(q.Asserts, "&") + "|-" + goal
	if r, ok := x.proveCache[key]; ok {
		return r
	}
	x.sideStats.asked++
	text := x.decls.render(q)
	r := solveSide(text)
	x.proveCache[key] = r
	if r {
		x.sideStats.proved++
	}
	return r
}

// ---------- values of SSA operands ----------

func (x *Exec) get(st *State, v ssa.Value) Val {
	switch c := v.(type) {
	case *ssa.Const:
		return x.constVal(c)
	case *ssa.Global:
		return x.globalAddr(c)
	case *ssa.Function:
		return Val{K: KFunc, T: c.Type(), Fn: c}
	case *ssa.Builtin:
		return opaque(v.Type(), "builtin")
	}
	if r, ok := st.env[v]; ok {
		return r
	}
	return opaque(v.Type(), "undefined value "+v.Name())
}

func (x *Exec) globalAddr(g *ssa.Global) Val {
	et := g.Type().(*types.Pointer).Elem()
	pk := ""
	if g.Pkg != nil {
		pk = x.eng.pkgSuffix(g.Pkg.Pkg.Path())
	}
	key := "G." + sanitize(pk) + "." + g.Name()
	if kindOf(et) == KStruct {
		// package-level struct variable: an object with a fixed negative ref
		ref := x.decls.Const("gref."+sanitize(pk)+"."+g.Name(), "Int")
		x.decls.Axiom(ref, sLt(ref, "0"))
		return refVal(ref, g.Type())
	}
	if cv, ok := x.eng.finalGlobal(g); ok {
		x.note("package variable " + g.Name() + " of " + pk + " is never assigned: read as the constant it is initialised with")
		return Val{K: KAddr, T: g.Type(), A: &Addr{Kind: AGlobal, Key: key, T: et, Final: cv.ExactString()}}
	}
	return Val{K: KAddr, T: g.Type(), A: &Addr{Kind: AGlobal, Key: key, T: et}}
}

func (x *Exec) constVal(c *ssa.Const) Val {
	t := c.Type()
	if c.Value == nil {
		x.declZero(t)
		z := zeroVal(t)
		return z
	}
	switch c.Value.Kind() {
	case constant.Bool:
		if constant.BoolVal(c.Value) {
			return boolVal("true")
		}
		return boolVal("false")
	case constant.Int:
		if kindOf(t) == KFloat {
			f, _ := constant.Float64Val(c.Value)
			return Val{K: KFloat, T: t, S: fpLit(f), Fl: &FExpr{Op: "const", C: f}}
		}
		n, _ := new(big.Int).SetString(c.Value.ExactString(), 10)
		return intVal(sBig(n), t)
	case constant.String:
		return Val{K: KStr, T: t, S: x.strLit(constant.StringVal(c.Value))}
	case constant.Float:
		f, _ := constant.Float64Val(c.Value)
		if kindOf(t) == KInt {
			n, _ := new(big.Int).SetString(constant.ToInt(c.Value).ExactString(), 10)
			if n != nil {
				return intVal(sBig(n), t)
			}
		}
		return Val{K: KFloat, T: t, S: fpLit(f), Fl: &FExpr{Op: "const", C: f}}
	}
	return opaque(t, "constant kind")
}

// ---------- function entry ----------

type LoopInfo struct {
	headers map[*ssa.BasicBlock]int                      // header -> ordinal
	body    map[*ssa.BasicBlock]map[*ssa.BasicBlock]bool // header -> blocks of the natural loop
}

func (x *Exec) loopInfo(fn *ssa.Function) *LoopInfo {
	if li, ok := x.loops[fn]; ok {
		return li
	}
	li := &LoopInfo{headers: map[*ssa.BasicBlock]int{}, body: map[*ssa.BasicBlock]map[*ssa.BasicBlock]bool{}}
	var hs []*ssa.BasicBlock
	for _, b := range fn.Blocks {
		for _, s := range b.Succs {
			if s.Dominates(b) { // back edge b -> s
				if _, ok := li.body[s]; !ok {
					li.body[s] = map[*ssa.BasicBlock]bool{s: true}
					hs = append(hs, s)
				}
				// natural loop: nodes that reach b without passing s
				var stack []*ssa.BasicBlock
				if !li.body[s][b] {
					li.body[s][b] = true
					stack = append(stack, b)
				}
				for len(stack) > 0 {
					n := stack[len(stack)-1]
					stack = stack[:len(stack)-1]
					for _, p := range n.Preds {
						if !li.body[s][p] {
							li.body[s][p] = true
							stack = append(stack, p)
						}
					}
				}
			}
		}
	}
	sort.Slice(hs, func(i, j int) bool { return hs[i].Index < hs[j].Index })
	for i, h := range hs {
		li.headers[h] = i
	}
	x.loops[fn] = li
	return li
}

// ---------- main block / instruction execution (continuation-passing) ----------

type pathLimit struct{}

func (x *Exec) block(fr *Frame, st *State, b *ssa.BasicBlock, pred *ssa.BasicBlock) {
	li := x.loopInfo(fr.fn)
	if ord, isHeader := li.headers[b]; isHeader {
		if !x.loopHead(fr, st, b, pred, ord, li) {
			return
		}
	} else {
		// phis
		for _, in := range b.Instrs {
			ph, ok := in.(*ssa.Phi)
			if !ok {
				break
			}
			for i, p := range b.Preds {
				if p == pred {
					st.env[ph] = x.get(st, ph.Edges[i])
				}
			}
		}
	}
	// assert @loop k begin: at entry of the first body block of loop k
	if len(b.Preds) == 1 {
		if ord, ok := li.headers[b.Preds[0]]; ok && li.body[b.Preds[0]][b] && fr.con != nil {
			for i, a := range fr.con.AssertAt[fmt.Sprintf("loop%d.begin", ord)] {
				x.specCheck(fr, st, fmt.Sprintf("assert@loop%d.begin[%d]", ord, i), "assert", a, nil, b.Instrs[0])
			}
		}
	}
	x.instrs(fr, st, b, 0)
}

func (x *Exec) pruneDepth() int {
	if x.con != nil && x.con.Opts["prune-depth"] != "" {
		n := 0
		fmt.Sscan(x.con.Opts["prune-depth"], &n)
		return n
	}
	return 7
}

func (x *Exec) endPath() {
	x.paths++
	if x.paths > maxPaths {
		panic(oos("more than %d paths", maxPaths))
	}
}

func (x *Exec) instrs(fr *Frame, st *State, b *ssa.BasicBlock, from int) {
	x.curFrame = fr
	for i := from; i < len(b.Instrs); i++ {
		in := b.Instrs[i]
		switch v := in.(type) {
		case *ssa.Phi:
			// handled at block entry
		case *ssa.DebugRef:
			x.debugRef(fr, st, v)
		case *ssa.If:
			cond := x.get(st, v.Cond)
			if cond.K != KBool {
				panic(oos("branch on %s value (%s) at %s", kindName(cond.K), cond.Why, x.where(in)))
			}
			if cond.S == "true" {
				x.block(fr, st, b.Succs[0], b)
				return
			}
			if cond.S == "false" {
				x.block(fr, st, b.Succs[1], b)
				return
			}
			if len(st.trace) >= x.pruneDepth() {
				// deep paths: drop infeasible branches (one short solver call each) to keep path enumeration tractable
				if x.prove(st, cond.S) {
					if x.prove(st, sNot(cond.S)) {
						// both the condition and its negation follow: the path condition is contradictory.  If it is still
						// contradictory without the branch conditions taken so far, assumptions (contracts, invariants, facts)
						// contradict each other: flagged, because everything after it would be proved vacuously.  Otherwise an
						// earlier branch (taken before pruning starts) was simply infeasible: the path is dead, drop it.
						s3 := st.clone()
						var pc []PCItem
						for _, it := range s3.pc {
							if !it.Br {
								pc = append(pc, it)
							}
						}
						s3.pc = pc
						if x.prove(s3, "(distinct 0 0)") {
							x.emit(fr, st, "vacuity:contradictory-path@"+x.label(fr.fn, in, "if"), "vacuity", atom("false"), in).Cover = true
						}
						x.endPath()
						return
					}
					x.block(fr, st, b.Succs[0], b)
					return
				}
				if x.prove(st, sNot(cond.S)) {
					x.block(fr, st, b.Succs[1], b)
					return
				}
			}
			s2 := st.clone()
			st.assume(cond.S)
			st.pc[len(st.pc)-1].Br = true
			st.trace = append(st.trace, x.where(in)+":T")
			x.block(fr, st, b.Succs[0], b)
			s2.assume(sNot(cond.S))
			s2.pc[len(s2.pc)-1].Br = true
			s2.trace = append(s2.trace, x.where(in)+":F")
			x.block(fr, s2, b.Succs[1], b)
			return
		case *ssa.Jump:
			x.block(fr, st, b.Succs[0], b)
			return
		case *ssa.Return:
			var rs []Val
			for _, r := range v.Results {
				rs = append(rs, x.get(st, r))
			}
			fr.ret(st, rs)
			return
		case *ssa.Panic:
			x.explicitPanic(fr, st, v)
			return
		case *ssa.Call:
			// calls may split the path or be inlined: they take a continuation
			x.call(fr, st, v, &v.Call, func(st2 *State, res Val) {
				st2.env[v] = res
				x.instrs(fr, st2, b, i+1)
			})
			return
		case *ssa.RunDefers:
			x.runDefers(fr, st, len(st.defers)-1, func(st2 *State) { x.instrs(fr, st2, b, i+1) })
			return
		default:
			x.simple(fr, st, in)
		}
	}
}

func (x *Exec) debugRef(fr *Frame, st *State, d *ssa.DebugRef) {
	obj := d.Object()
	if obj == nil {
		return
	}
	if vr, isVar := obj.(*types.Var); !isVar || vr.IsField() {
		// a store to x.f carries a DebugRef whose object is the FIELD f: not a source-level variable
		return
	}
	v := x.get(st, d.X)
	if d.IsAddr {
		// variable lives in memory: bind the address, specs auto-load
		if v.K == KRef || v.K == KAddr {
			st.dbgAddr[obj.Name()] = v
			delete(st.dbg, obj.Name())
		}
		return
	}
	if v.K == KOpaque {
		return
	}
	st.dbg[obj.Name()] = v
	delete(st.dbgAddr, obj.Name())
}

func (x *Exec) explicitPanic(fr *Frame, st *State, p *ssa.Panic) {
	x.endPath()
	con := fr.con
	if con != nil && len(con.PanicsIf) > 0 && fr.depth == 0 {
		// reached an explicit panic: one of the declared conditions must hold (in the pre-state)
		var conds []string
		env := x.specEnvAt(fr, fr.pre, fr.pre, nil)
		for _, c := range con.PanicsIf {
			conds = append(conds, env.evalBool(c.Expr).S)
		}
		x.emit(fr, st, x.label(fr.fn, p, "panic")+".declared", "panic", atom(sOr(conds...)), p)
		return
	}
	if fr.nopanic {
		x.emit(fr, st, x.label(fr.fn, p, "panic")+".unreachable", "panic", atom("false"), p)
	}
}
