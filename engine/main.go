package main

// govc — contract-based deductive verification of lemochain-core (VC generation over go/ssa, discharge by z3/cvc5).

import (
	"encoding/json"
	"flag"
	"fmt"
	"os"
	"path/filepath"
	"runtime"
	"runtime/pprof"
	"sort"
	"strconv"
	"strings"
	"time"
)

type Finding struct {
	Property   string `json:"property"`
	Obligation string `json:"obligation"`
	Excuse     string `json:"excuse"`
	What       string `json:"what"`
	Replay     string `json:"replay"`
	Status     string `json:"status"`
	Commit     string `json:"commit,omitempty"`
}

var exit = os.Exit

func usage() {
	fmt.Fprintln(os.Stderr, "usage: govc check <Cxx> [--tier quick|thorough] [--repo DIR] | govc list | govc func <key> [-v]")
	os.Exit(2)
}

func main() {
	if len(os.Args) < 2 {
		usage()
	}
	cmd := os.Args[1]
	if pp := os.Getenv("GOVC_PPROF"); pp != "" {
		f, _ := os.Create(pp)
		pprof.StartCPUProfile(f)
		defer pprof.StopCPUProfile()
		exit = func(c int) { pprof.StopCPUProfile(); os.Exit(c) }
	}
	fs := flag.NewFlagSet(cmd, flag.ExitOnError)
	tier := fs.String("tier", "quick", "quick|thorough")
	repo := fs.String("repo", "/repo", "repository root")
	verif := fs.String("verif", "", "verif root (default: parent of the executable's directory)")
	verbose := fs.Bool("v", false, "verbose")
	noReplay := fs.Bool("no-replay", false, "skip replays")
	var rest []string
	args := os.Args[2:]
	// allow positional args before flags
	for len(args) > 0 && !strings.HasPrefix(args[0], "-") {
		rest = append(rest, args[0])
		args = args[1:]
	}
	fs.Parse(args)
	rest = append(rest, fs.Args()...)
	tierGiven := false
	fs.Visit(func(f *flag.Flag) {
		if f.Name == "tier" {
			tierGiven = true
		}
	})
	// the registered commands name their tier; the environment variable decides only for a command line that does not
	if t := os.Getenv("VERIF_TIER"); !tierGiven && (t == "quick" || t == "thorough") {
		*tier = t
	}
	crossCheck = *tier == "thorough"
	if s := os.Getenv("VERIF_SEED"); s != "" {
		if n, err := strconv.Atoi(s); err == nil {
			solverSeed = n
		}
	}
	if *verif == "" {
		exe, _ := os.Executable()
		*verif = filepath.Dir(filepath.Dir(exe))
		if _, err := os.Stat(filepath.Join(*verif, "properties.jsonl")); err != nil {
			*verif = "/verif"
		}
	}
	eng := &Engine{repo: *repo, verif: *verif}
	switch cmd {
	case "check":
		if len(rest) != 1 {
			usage()
		}
		exit(runCheck(eng, rest[0], *tier, *verbose, *noReplay))
	case "list":
		eng.loadContracts()
		byProp := map[string][]string{}
		for _, k := range eng.cs.sortedKeys() {
			for _, p := range eng.cs.Funcs[k].Props {
				byProp[p] = append(byProp[p], k)
			}
		}
		for _, l := range eng.cs.Lemmas {
			for _, p := range l.Props {
				byProp[p] = append(byProp[p], l.Key)
			}
		}
		var ps []string
		for p := range byProp {
			ps = append(ps, p)
		}
		sort.Strings(ps)
		for _, p := range ps {
			fmt.Printf("%s (%d)\n", p, len(byProp[p]))
			for _, k := range byProp[p] {
				fmt.Println("   ", k)
			}
		}
	case "func":
		if len(rest) != 1 {
			usage()
		}
		exit(runFunc(eng, rest[0], *tier, *verbose))
	default:
		usage()
	}
}

func workers() int {
	n := runtime.NumCPU()
	if n > 16 {
		n = 16
	}
	if n < 2 {
		n = 2
	}
	return n
}

func timeoutFor(tier string) int {
	if tier == "thorough" {
		return 120000
	}
	// obligations normally discharge in well under 3 s; the margin is for a loaded machine (a timeout on an unchanged tree would be
	// a false alarm), it only delays the report of an obligation that really fails
	return 30000
}

// packagesFor: directories of contract files that mention the property (plus packages named by `package` directives)
func (eng *Engine) packagesFor(prop string) []string {
	set := map[string]bool{}
	add := func(c *Contract) {
		// every repository package that carries a contract file is loaded: callees are then available with their bodies
		if true {
			if c.Pkg != "" && !strings.Contains(c.Pkg, ".") {
				if _, err := os.Stat(filepath.Join(eng.repo, c.Pkg)); err == nil {
					set["./"+c.Pkg] = true
				}
			}
		}
	}
	for _, c := range eng.cs.Funcs {
		add(c)
	}
	for _, c := range eng.cs.Lemmas {
		add(c)
	}
	var out []string
	for p := range set {
		out = append(out, p)
	}
	sort.Strings(out)
	return out
}

func runFunc(eng *Engine, key, tier string, verbose bool) int {
	eng.loadContracts()
	con := eng.cs.Funcs[key]
	var lemma *Contract
	for _, l := range eng.cs.Lemmas {
		if l.Key == key {
			lemma = l
		}
	}
	if con == nil && lemma == nil {
		fmt.Println("no contract for", key)
		return 2
	}
	pk := ""
	if con != nil {
		pk = con.Pkg
	} else {
		pk = lemma.Pkg
	}
	_ = pk
	if err := eng.load(eng.packagesFor("")); err != nil {
		fmt.Println("load error:", err)
		return 2
	}
	eng.resolveGuards()
	views := []string{""}
	if con != nil {
		views = con.Views()
	}
	rc := 0
	for _, view := range views {
		if view != "" {
			fmt.Printf("--- view %s\n", view)
		}
		eng.curView = view
		if r := runFuncView(eng, key, con, lemma, tier, verbose); r != 0 {
			rc = r
		}
		eng.curView = ""
	}
	return rc
}

func runFuncView(eng *Engine, key string, con, lemma *Contract, tier string, verbose bool) int {
	t0 := time.Now()
	var res *FuncResult
	if con != nil {
		res = eng.verifyFunc(key, con, -1)
	} else {
		res = eng.verifyLemma(lemma, -1)
	}
	gen := time.Since(t0)
	res.discharge(timeoutFor(tier), workers())
	fmt.Printf("%s: paths=%d obligations=%d side=%d/%d gen=%.2fs oos=%q\n", key, res.Paths, len(res.Obs), res.Side.Proved, res.Side.Asked, gen.Seconds(), res.OOS)
	bad := 0
	canaryAlive := map[string]bool{}
	for _, o := range res.Obs {
		if (o.Cover || o.Canary) && o.Res.Status != "unsat" {
			canaryAlive[o.Name] = true
		}
	}
	for _, o := range res.Obs {
		ok := o.Res.Status == "unsat"
		if o.Cover || o.Canary {
			// vacuity guards fail only when every path is proved contradictory
			ok = canaryAlive[o.Name]
		}
		if !ok {
			bad++
		}
		if verbose || !ok {
			fmt.Printf("  %-70s %-8s %-7s %.2fs %s\n", strings.TrimPrefix(o.Name, key), o.Res.Status, o.Res.Solver, o.Res.Secs, o.Where)
		}
		if !ok && os.Getenv("GOVC_EXPLAIN") != "" && strings.Contains(o.Name, os.Getenv("GOVC_EXPLAIN")) {
			explain(res, o)
		}
	}
	for _, n := range res.Notes {
		fmt.Println("  note:", n)
	}
	for n, ok := range res.NoWrap {
		if !ok && verbose {
			fmt.Println("  wrap-possible:", n)
		}
	}
	if bad > 0 {
		return 1
	}
	return 0
}

func loadFindings(verif string) []Finding {
	var fs []Finding
	data, err := os.ReadFile(filepath.Join(verif, "known_findings.json"))
	if err != nil {
		return nil
	}
	json.Unmarshal(data, &fs)
	return fs
}

// explain prints a (candidate) model of a failing obligation: parameters, lets, index terms, extra terms from GOVC_TERMS
func explain(res *FuncResult, o *Oblig) {
	q := res.x.buildQuery(o)
	var names, terms []string
	for n, t := range res.x.modelTerms {
		names = append(names, n)
		terms = append(terms, t)
	}
	for _, t := range o.Idx {
		if !strings.Contains(t.T, "?") {
			names = append(names, "idx "+t.T)
			terms = append(terms, t.T)
		}
	}
	for _, t := range strings.Split(os.Getenv("GOVC_TERMS"), ";") {
		if strings.TrimSpace(t) != "" {
			names = append(names, t)
			terms = append(terms, t)
		}
	}
	q.Values = terms
	text := res.decls.render(q)
	if p := os.Getenv("GOVC_DUMP"); p != "" {
		os.WriteFile(p, []byte(text), 0644)
	}
	r := solveText(text, 10000)
	fmt.Println("    path:", strings.Join(o.Trace, " "))
	fmt.Println("    explain:", r.Status, r.Solver)
	if r.Status == "sat" {
		vals := parseValues(r.Output)
		for i, n := range names {
			if i < len(vals) {
				fmt.Printf("      %-60s = %s\n", truncate(n, 60), vals[i])
			}
		}
	}
	fmt.Println("    goal:", truncate(render(o.Goal), 600))
}
