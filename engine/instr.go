package main

// Non-control SSA instructions.

import (
	"fmt"
	"go/token"
	"go/types"
	"math/big"
	"strings"

	"golang.org/x/tools/go/ssa"
)

func pow2(n int) string { return new(big.Int).Lsh(big.NewInt(1), uint(n)).String() }

// wrapTerm gives Go's wrap-around value of the mathematical term raw in integer type t
func wrapTerm(raw string, t types.Type) string {
	bits, signed := intBits(t)
	m := "(mod " + raw + " " + pow2(bits) + ")"
	if !signed {
		return m
	}
	return sIte(sLt(m, pow2(bits-1)), m, sSub(m, pow2(bits)))
}

func inRange(raw string, t types.Type) string {
	lo, hi, ok := intRange(t)
	if !ok {
		return "true"
	}
	return sAnd(sLe(lo, raw), sLe(raw, hi))
}

// arith: mathematical result if provably in range on this path (side obligation), else exact wrap term
func (x *Exec) arith(fr *Frame, st *State, in ssa.Instruction, kind string, raw string, t types.Type) string {
	if _, ok := litVal(raw); ok {
		if x.proveLit(raw, t) {
			return raw
		}
		return wrapTerm(raw, t)
	}
	goal := inRange(raw, t)
	name := x.key + "#" + fr.prefix + x.label(fr.fn, in, kind)
	ok := x.prove(st, goal)
	if prev, seen := x.noWrapRec[name]; !seen {
		x.noWrapRec[name] = ok
	} else {
		x.noWrapRec[name] = prev && ok
	}
	if ok {
		return raw
	}
	return wrapTerm(raw, t)
}

func (x *Exec) proveLit(raw string, t types.Type) bool {
	n, _ := litVal(raw)
	lo, hi, ok := intRange(t)
	if !ok {
		return true
	}
	l, _ := litVal(lo)
	h, _ := litVal(hi)
	return n.Cmp(l) >= 0 && n.Cmp(h) <= 0
}

func isUnsigned(t types.Type) bool {
	b, ok := t.Underlying().(*types.Basic)
	return ok && b.Info()&types.IsUnsigned != 0
}

func (x *Exec) simple(fr *Frame, st *State, in ssa.Instruction) {
	switch v := in.(type) {
	case *ssa.Alloc:
		st.env[v] = x.alloc(st, v)
	case *ssa.BinOp:
		st.env[v] = x.binop(fr, st, v)
	case *ssa.UnOp:
		st.env[v] = x.unop(fr, st, v)
	case *ssa.ChangeType:
		a := x.get(st, v.X)
		a.T = v.Type()
		st.env[v] = a
	case *ssa.Convert:
		st.env[v] = x.convert(fr, st, v)
	case *ssa.ChangeInterface:
		a := x.get(st, v.X)
		a.T = v.Type()
		st.env[v] = a
	case *ssa.MakeInterface:
		st.env[v] = x.makeInterface(st, v)
	case *ssa.MakeClosure:
		fn := v.Fn.(*ssa.Function)
		cv := Val{K: KFunc, T: v.Type(), Fn: fn}
		for _, b := range v.Bindings {
			cv.Bind = append(cv.Bind, x.get(st, b))
		}
		st.env[v] = cv
	case *ssa.MakeMap:
		r := x.allocRef(st)
		m := refVal(r, v.Type())
		// fresh map: empty domain, length 0
		mt := v.Type()
		d := x.mapDom(st, mt)
		ks := mapKeySort(mt.Underlying().(*types.Map))
		d.write(r, "((as const (Array "+ks+" Bool)) false)")
		x.mapLenArr(st, mt).write(r, "0")
		st.env[v] = m
	case *ssa.MakeChan:
		st.env[v] = refVal(x.allocRef(st), v.Type())
	case *ssa.MakeSlice:
		st.env[v] = x.makeSlice(fr, st, v)
	case *ssa.Slice:
		st.env[v] = x.slice(fr, st, v)
	case *ssa.FieldAddr:
		base := x.get(st, v.X)
		if base.K != KRef {
			if base.K == KAddr && base.A.Kind == AElem {
				// &s[i].f : address of a component of an element
				st.env[v] = x.elemFieldAddr(base, v.Field)
				return
			}
			panic(oos("FieldAddr on %s value (%s) at %s", kindName(base.K), base.Why, x.where(in)))
		}
		x.guard(fr, st, in, "nil-deref:field", sNot(sEq(base.S, "0")))
		owner := v.X.Type().Underlying().(*types.Pointer).Elem()
		st.env[v] = x.fieldAddr(st, base.S, owner, v.Field)
	case *ssa.Field:
		base := x.get(st, v.X)
		if base.K != KStruct {
			st.env[v] = opaque(v.Type(), "field of non-struct value")
			return
		}
		st.env[v] = base.Fs[v.Field]
	case *ssa.IndexAddr:
		st.env[v] = x.indexAddr(fr, st, v)
	case *ssa.Index:
		st.env[v] = x.index(fr, st, v)
	case *ssa.Lookup:
		st.env[v] = x.lookup(fr, st, v)
	case *ssa.MapUpdate:
		x.directWrite(fr, st, in, v.Map)
		m := x.get(st, v.Map)
		if m.K != KRef {
			panic(oos("map update on %s value", kindName(m.K)))
		}
		x.guard(fr, st, in, "nil-map-write", sNot(sEq(m.S, "0")))
		x.mapPut(st, m, x.get(st, v.Key), x.get(st, v.Value))
	case *ssa.Store:
		p := x.get(st, v.Addr)
		val := x.get(st, v.Val)
		if p.K == KOpaque {
			panic(oos("store through opaque pointer (%s) at %s", p.Why, x.where(in)))
		}
		if p.K == KRef {
			x.guard(fr, st, in, "nil-deref:store", sNot(sEq(p.S, "0")))
		}
		x.guardedAccess(fr, st, in, p, true)
		if ia, isIdx := v.Addr.(*ssa.IndexAddr); isIdx {
			x.directWrite(fr, st, in, ia.X)
		}
		if val.K == KOpaque || val.K == KFunc || val.K == KAddr {
			// storing an unmodelled value: the location becomes unknown
			x.storeUnknown(st, p, val)
			return
		}
		x.storeThrough(st, p, val)
	case *ssa.Extract:
		t := x.get(st, v.Tuple)
		if t.K == KTuple && v.Index < len(t.Fs) {
			st.env[v] = t.Fs[v.Index]
		} else {
			st.env[v] = opaque(v.Type(), "extract from "+kindName(t.K)+" "+t.Why)
		}
	case *ssa.TypeAssert:
		st.env[v] = x.typeAssert(fr, st, v)
	case *ssa.Range:
		st.env[v] = x.rangeInit(st, v)
	case *ssa.Next:
		st.env[v] = x.next(fr, st, v)
	case *ssa.Defer:
		d := Deferred{call: &v.Call, pos: v}
		for _, a := range v.Call.Args {
			d.args = append(d.args, x.get(st, a))
		}
		d.fnv = x.get(st, v.Call.Value)
		st.defers[len(st.defers)-1] = append(st.defers[len(st.defers)-1], d)
	case *ssa.Go:
		// T3: no sequential effect in the spawner; arguments are evaluated
		x.note("T3: go statement at " + x.where(in) + " has no sequential effect in the spawner")
		// zero-annotation obligation: the spawned closure must not capture a variable that the enclosing loop goes on assigning
		// (before Go 1.22 -- the language version of the module decides -- `for _, v := range` has ONE v: the goroutines see
		// whatever it holds when they get to run)
		if mc, ok := v.Call.Value.(*ssa.MakeClosure); ok && fr.depth == 0 {
			li := x.loopInfo(fr.fn)
			for _, bnd := range mc.Bindings {
				al, isAlloc := bnd.(*ssa.Alloc)
				if !isAlloc {
					continue
				}
				for _, body := range li.body {
					if !body[in.Block()] || body[al.Block()] {
						continue // the go statement is not in this loop, or the variable is allocated per iteration
					}
					stored := false
					if al.Referrers() != nil {
						for _, u := range *al.Referrers() {
							if stt, isStore := u.(*ssa.Store); isStore && stt.Addr == ssa.Value(al) && body[stt.Block()] {
								stored = true
							}
						}
					}
					if stored {
						x.emit(fr, st, x.label(fr.fn, in, "go")+".captures-loop-variable:"+al.Comment, "loopvar", atom("false"), in)
					}
				}
			}
		}
	case *ssa.Send, *ssa.Select:
		panic(oos("channel operation at %s (T4)", x.where(in)))
	case *ssa.SliceToArrayPointer, *ssa.MultiConvert:
		st.env[in.(ssa.Value)] = opaque(in.(ssa.Value).Type(), "unsupported conversion")
	default:
		if val, ok := in.(ssa.Value); ok {
			st.env[val] = opaque(val.Type(), fmt.Sprintf("unsupported instruction %T", in))
		} else {
			panic(oos("unsupported instruction %T at %s", in, x.where(in)))
		}
	}
}

func (x *Exec) storeUnknown(st *State, p Val, val Val) {
	// the stored value is not modelled: write a fresh unknown of the right shape if we can, else ignore local cells
	var et types.Type
	switch p.K {
	case KAddr:
		et = p.A.T
	case KRef:
		if pt, ok := p.T.Underlying().(*types.Pointer); ok {
			et = pt.Elem()
		}
	}
	if et == nil {
		panic(oos("store of unmodelled value through %s", kindName(p.K)))
	}
	if kindOf(et) == KStruct {
		panic(oos("store of unmodelled struct value"))
	}
	if val.K == KFunc {
		// remember closures stored in local cells (named function variables)
		if p.K == KRef {
			if x.funcCells == nil {
				x.funcCells = map[string]Val{}
			}
			x.funcCells[p.S] = val
		}
	}
	fv := x.freshVal(st, et, "unk")
	x.storeThrough(st, p, fv)
}

func (x *Exec) alloc(st *State, a *ssa.Alloc) Val {
	et := a.Type().(*types.Pointer).Elem()
	r := x.allocRef(st)
	p := refVal(r, a.Type())
	x.declZero(et)
	if at, isArr := et.Underlying().(*types.Array); isArr {
		// local arrays use element storage so that slicing aliases them
		x.arrStorage[r] = true
		l := x.lazyFor(st, at.Elem())
		l.ups = append(l.ups, Upd{arr: r, zero: true})
		return p
	}
	if kindOf(et) == KStruct {
		x.storeObj(st, r, et, zeroVal(et))
		if n, ok := et.(*types.Named); ok && n.Obj().Pkg() != nil && n.Obj().Pkg().Path() == "math/big" && n.Obj().Name() == "Int" {
			x.setBigval(st, r, "0") // new(big.Int) is zero
		}
	} else {
		x.writeComps(st, cellKey(et), et, r, zeroVal(et))
	}
	return p
}

func (x *Exec) arrayFromStorage(st *State, id string, t types.Type) Val {
	at := t.Underlying().(*types.Array)
	if o, ok := x.arrOrigin[id]; ok {
		return Val{K: KArr, T: t, S: o.val}
	}
	if at.Len() > 64 {
		panic(oos("load of large local array"))
	}
	v := x.decls.Fresh("arrv", "Val")
	for i := int64(0); i < at.Len(); i++ {
		e := x.elemReadAbs(st, elemKey(at.Elem()), at.Elem(), id, sInt(i))
		st.assume(sEq(x.byteAt(v, sInt(i), at.Elem()), flatten(e)[0]))
	}
	return Val{K: KArr, T: t, S: v}
}

func (x *Exec) arrayToStorage(st *State, id string, t types.Type, v Val) {
	at := t.Underlying().(*types.Array)
	l := x.lazyFor(st, at.Elem())
	if len(comps(at.Elem())) != 1 {
		panic(oos("store of a local array with compound elements"))
	}
	x.byteAt(v.S, "0", at.Elem())
	l.ups = append(l.ups, Upd{arr: id, n: sInt(at.Len()), fromVal: v.S, fromFn: "elemAt." + typeName(at.Elem())})
	x.arrOrigin[id] = originInfo{val: v.S, t: t, n: at.Len()}
	st.bumpWrite(id, []string{v.S})
}

func (x *Exec) elemFieldAddr(base Val, field int) Val {
	stt := base.A.T.Underlying().(*types.Struct)
	lo := 0
	for i := 0; i < field; i++ {
		lo += len(comps(stt.Field(i).Type()))
	}
	ft := stt.Field(field).Type()
	a := *base.A
	if a.ElemT == nil {
		a.ElemT = base.A.T
		a.CompLo = 0
	}
	a.CompLo += lo
	a.CompN = len(comps(ft))
	a.T = ft
	return Val{K: KAddr, T: types.NewPointer(ft), A: &a}
}

func (x *Exec) binop(fr *Frame, st *State, v *ssa.BinOp) Val {
	a, b := x.get(st, v.X), x.get(st, v.Y)
	t := v.Type()
	switch v.Op {
	case token.EQL, token.NEQ:
		eq := x.valEq(a, b)
		if eq == "" {
			return opaque(t, "comparison of "+kindName(a.K)+"/"+kindName(b.K)+" "+a.Why+b.Why)
		}
		if v.Op == token.NEQ {
			return boolVal(sNot(eq))
		}
		return boolVal(eq)
	}
	if a.K == KStr && b.K == KStr {
		switch v.Op {
		case token.ADD:
			r := x.decls.Fresh("strcat", "Str")
			st.assume(sEq(x.strlen(r), sAdd(x.strlen(a.S), x.strlen(b.S))))
			return Val{K: KStr, T: t, S: r}
		}
		return opaque(t, "string operator")
	}
	if a.K == KFloat || b.K == KFloat {
		return x.floatBinop(st, v, a, b)
	}
	if a.K != KInt || b.K != KInt {
		return opaque(t, "operator on "+kindName(a.K)+"/"+kindName(b.K)+" "+a.Why+b.Why)
	}
	switch v.Op {
	case token.LSS:
		return boolVal(sLt(a.S, b.S))
	case token.LEQ:
		return boolVal(sLe(a.S, b.S))
	case token.GTR:
		return boolVal(sLt(b.S, a.S))
	case token.GEQ:
		return boolVal(sLe(b.S, a.S))
	case token.ADD:
		return intVal(x.arith(fr, st, v, "no-wrap:add", sAdd(a.S, b.S), t), t)
	case token.SUB:
		return intVal(x.arith(fr, st, v, "no-wrap:sub", sSub(a.S, b.S), t), t)
	case token.MUL:
		return intVal(x.arith(fr, st, v, "no-wrap:mul", sMul(a.S, b.S), t), t)
	case token.QUO, token.REM:
		x.guard(fr, st, v, "div-by-zero", sNot(sEq(b.S, "0")))
		var q, r string
		if isUnsigned(t) || (x.nonneg(st, a.S) && x.nonneg(st, b.S)) {
			q, r = "(div "+a.S+" "+b.S+")", "(mod "+a.S+" "+b.S+")"
		} else {
			na := "(- " + a.S + ")"
			q = sIte(sLe("0", a.S), "(div "+a.S+" "+b.S+")", "(- (div "+na+" "+b.S+"))")
			r = sIte(sLe("0", a.S), "(mod "+a.S+" "+b.S+")", "(- (mod "+na+" "+b.S+"))")
		}
		if v.Op == token.QUO {
			if isUnsigned(t) {
				return intVal(q, t)
			}
			// MinInt / -1 wraps
			return intVal(x.arith(fr, st, v, "no-wrap:quo", q, t), t)
		}
		return intVal(r, t)
	case token.SHL:
		if k, ok := litVal(b.S); ok && k.IsInt64() && k.Int64() < 64 && k.Sign() >= 0 {
			return intVal(x.arith(fr, st, v, "no-wrap:shl", sMul(a.S, pow2(int(k.Int64()))), t), t)
		}
		return x.bitUF(st, "shl", a, b, t)
	case token.SHR:
		if k, ok := litVal(b.S); ok && k.IsInt64() && k.Int64() < 64 && k.Sign() >= 0 {
			return intVal("(div "+a.S+" "+pow2(int(k.Int64()))+")", t)
		}
		return x.bitUF(st, "shr", a, b, t)
	case token.AND:
		if k, ok := litVal(b.S); ok {
			k1 := new(big.Int).Add(k, big.NewInt(1))
			if k.Sign() > 0 && new(big.Int).And(k, k1).Sign() == 0 && (isUnsigned(t) || x.nonneg(st, a.S)) {
				return intVal("(mod "+a.S+" "+k1.String()+")", t)
			}
		}
		r := x.bitUF(st, "and", a, b, t)
		if isUnsigned(t) {
			st.assume(sAnd(sLe(r.S, a.S), sLe(r.S, b.S)))
		}
		return r
	case token.OR:
		r := x.bitUF(st, "or", a, b, t)
		if isUnsigned(t) {
			st.assume(sAnd(sLe(a.S, r.S), sLe(b.S, r.S), sLe(r.S, sAdd(a.S, b.S))))
		}
		return r
	case token.XOR:
		return x.bitUF(st, "xor", a, b, t)
	case token.AND_NOT:
		r := x.bitUF(st, "andnot", a, b, t)
		if isUnsigned(t) {
			st.assume(sLe(r.S, a.S))
		}
		return r
	}
	return opaque(t, "operator "+v.Op.String())
}

func (x *Exec) nonneg(st *State, s string) bool {
	if n, ok := litVal(s); ok {
		return n.Sign() >= 0
	}
	return x.prove(st, sLe("0", s))
}

// bitUF: bit operations as uninterpreted (but functional and well-typed) results
func (x *Exec) bitUF(st *State, op string, a, b Val, t types.Type) Val {
	fn := "bit." + op + "." + typeName(t)
	x.decls.Fun(fn, []string{"Int", "Int"}, "Int")
	r := "(" + fn + " " + a.S + " " + b.S + ")"
	st.assume(inRange(r, t))
	return intVal(r, t)
}

func (x *Exec) valEq(a, b Val) string {
	if a.K == KOpaque || b.K == KOpaque || a.K == KFunc || b.K == KFunc {
		return ""
	}
	switch a.K {
	case KSlice:
		if b.K == KSlice && b.Arr == "0" {
			return sEq(a.Arr, "0")
		}
		if b.K == KRef && b.S == "0" {
			return sEq(a.Arr, "0")
		}
		return ""
	case KStruct:
		if b.K != KStruct || len(a.Fs) != len(b.Fs) {
			return ""
		}
		var cs []string
		for i := range a.Fs {
			e := x.valEq(a.Fs[i], b.Fs[i])
			if e == "" {
				return ""
			}
			cs = append(cs, e)
		}
		return sAnd(cs...)
	case KAddr:
		// the address of a field or element is never nil
		if b.K == KRef && b.S == "0" {
			return "false"
		}
		return ""
	case KTuple:
		return ""
	case KFloat:
		if b.K == KFloat {
			return "(fp.eq " + a.S + " " + b.S + ")"
		}
		return ""
	}
	if b.K == KSlice {
		return x.valEq(b, a)
	}
	if b.K == KAddr && a.K == KRef && a.S == "0" {
		return "false"
	}
	if b.K == KStruct || b.K == KAddr || b.K == KTuple {
		return ""
	}
	return sEq(a.S, b.S)
}

func (x *Exec) unop(fr *Frame, st *State, v *ssa.UnOp) Val {
	a := x.get(st, v.X)
	t := v.Type()
	switch v.Op {
	case token.MUL:
		if a.K == KOpaque {
			return opaque(t, "load through opaque pointer: "+a.Why)
		}
		if a.K == KRef {
			x.guard(fr, st, v, "nil-deref:load", sNot(sEq(a.S, "0")))
			if fv, ok := x.funcCells[a.S]; ok && kindOf(t) == KRef {
				if _, isSig := t.Underlying().(*types.Signature); isSig {
					return fv
				}
			}
		}
		x.guardedAccess(fr, st, v, a, false)
		return x.deref(st, a)
	case token.NOT:
		if a.K != KBool {
			return opaque(t, "! on non-bool")
		}
		return boolVal(sNot(a.S))
	case token.SUB:
		if a.K == KInt {
			return intVal(x.arith(fr, st, v, "no-wrap:neg", sSub("0", a.S), t), t)
		}
		return opaque(t, "negation of "+kindName(a.K))
	case token.XOR:
		if a.K == KInt {
			if isUnsigned(t) {
				_, hi, _ := intRange(t)
				return intVal(sSub(hi, a.S), t)
			}
			return intVal(sSub(sSub("0", a.S), "1"), t)
		}
	case token.ARROW:
		panic(oos("channel receive at %s (T4)", x.where(v)))
	}
	return opaque(t, "unary "+v.Op.String())
}

func (x *Exec) convert(fr *Frame, st *State, v *ssa.Convert) Val {
	a := x.get(st, v.X)
	t := v.Type()
	from, to := kindOf(v.X.Type()), kindOf(t)
	switch {
	case a.K == KOpaque:
		return opaque(t, a.Why)
	case from == KInt && to == KInt:
		if _, _, ok := intRange(t); !ok {
			return intVal(a.S, t)
		}
		return intVal(x.arith(fr, st, v, "convert-range", a.S, t), t)
	case from == KInt && to == KFloat:
		return x.intToFloat(st, a, t)
	case from == KFloat && to == KInt:
		return x.floatToInt(fr, st, v, a, t)
	case from == KFloat && to == KFloat:
		a.T = t
		return a
	case from == KStr && to == KSlice:
		// []byte(s): fresh backing array of length strlen(s); contents tied to the string by strbyte
		r := x.allocRef(st)
		ln := x.strlen(a.S)
		et := t.Underlying().(*types.Slice).Elem()
		l := x.lazyFor(st, et)
		x.fresh++
		hv := x.decls.Fresh("strbytes", "(Array Int (Array Int Int))")
		x.decls.Fun("strbyte", []string{"Str", "Int"}, "Int")
		l.ups = append(l.ups, Upd{arr: r, lo: "0", n: ln, havoc: []string{hv}})
		x.byteArrayFacts(hv)
		return Val{K: KSlice, T: t, Arr: r, Off: "0", Len: ln, Cap: ln}
	case from == KSlice && to == KStr:
		// string(b): an injective function of the byte content
		c := x.contentOf(st, a)
		x.decls.Fun("strof", []string{"Val"}, "Str")
		x.decls.Fun("strof.inv", []string{"Str"}, "Val")
		s := "(strof " + c + ")"
		x.injective("strof")
		st.assume(sEq(x.strlen(s), a.Len))
		return Val{K: KStr, T: t, S: s}
	case from == KInt && to == KStr:
		return Val{K: KStr, T: t, S: x.decls.Fresh("str", "Str")}
	case from == KRef && to == KRef:
		a.T = t
		return a
	}
	return opaque(t, fmt.Sprintf("conversion %v -> %v", v.X.Type(), t))
}

func (x *Exec) makeInterface(st *State, v *ssa.MakeInterface) Val {
	a := x.get(st, v.X)
	ct := v.X.Type()
	tag := "box." + typeName(ct)
	id := x.tagID(tag)
	x.decls.Fun("iface.tag", []string{"Int"}, "Int")
	switch a.K {
	case KRef:
		x.decls.Fun(tag, []string{"Int"}, "Int")
		x.decls.Fun(tag+".inv", []string{"Int"}, "Int")
		b := "(" + tag + " " + a.S + ")"
		x.boxFacts(tag, id)
		return Val{K: KRef, T: v.Type(), S: b}
	case KInt, KBool, KStr, KArr:
		srt := sortOfKind(a.K)
		x.decls.Fun(tag, []string{srt}, "Int")
		x.decls.Fun(tag+".inv", []string{"Int"}, srt)
		b := "(" + tag + " " + a.S + ")"
		x.boxFacts(tag, id)
		return Val{K: KRef, T: v.Type(), S: b}
	}
	// unmodelled payload: a fresh non-nil interface value of known dynamic type
	r := x.decls.Fresh("iface", "Int")
	st.assume(sAnd(sNot(sEq(r, "0")), sEq("(iface.tag "+r+")", sInt(int64(id)))))
	return Val{K: KRef, T: v.Type(), S: r, Why: "boxed " + kindName(a.K)}
}

func (x *Exec) typeAssert(fr *Frame, st *State, v *ssa.TypeAssert) Val {
	a := x.get(st, v.X)
	if a.K != KRef {
		return opaque(v.Type(), "type assertion on "+kindName(a.K))
	}
	at := v.AssertedType
	if _, isIface := at.Underlying().(*types.Interface); isIface {
		// interface-to-interface: succeeds iff non-nil and implements (unknown): opaque ok
		if v.CommaOk {
			ok := x.decls.Fresh("implok", "Bool")
			st.assume(sImp(ok, sNot(sEq(a.S, "0"))))
			r := a
			r.T = at
			return Val{K: KTuple, T: v.Type(), Fs: []Val{r, boolVal(ok)}}
		}
		st.assume(sNot(sEq(a.S, "0")))
		a.T = at
		return a
	}
	tag := "box." + typeName(at)
	id := x.tagID(tag)
	x.decls.Fun("iface.tag", []string{"Int"}, "Int")
	okT := sAnd(sNot(sEq(a.S, "0")), sEq("(iface.tag "+a.S+")", sInt(int64(id))))
	var payload Val
	switch kindOf(at) {
	case KRef, KInt, KBool, KStr, KArr:
		srt := sortOfKind(kindOf(at))
		argS := "Int"
		if kindOf(at) != KRef {
			argS = srt
		}
		x.decls.Fun(tag, []string{argS}, "Int")
		x.decls.Fun(tag+".inv", []string{"Int"}, argS)
		payload = Val{K: kindOf(at), T: at, S: "(" + tag + ".inv " + a.S + ")"}
		if kindOf(at) == KInt {
			st.assume(sImp(okT, inRange(payload.S, at)))
		}
	default:
		payload = x.freshVal(st, at, "asserted")
	}
	if v.CommaOk {
		return Val{K: KTuple, T: v.Type(), Fs: []Val{payload, boolVal(okT)}}
	}
	x.guard(fr, st, v, "type-assert", okT)
	return payload
}

func (x *Exec) makeSlice(fr *Frame, st *State, v *ssa.MakeSlice) Val {
	ln, cp := x.get(st, v.Len), x.get(st, v.Cap)
	if ln.K != KInt || cp.K != KInt {
		panic(oos("make with unmodelled size"))
	}
	x.guard(fr, st, v, "make", sAnd(sLe("0", ln.S), sLe(ln.S, cp.S), sLe(cp.S, capLimit)))
	if fr.con != nil && fr.con.Opts["alloc-bound"] != "" && fr.depth == 0 {
		// every allocation sized by this function must satisfy the declared bound ($size = requested capacity)
		c := mkClause(fr.con.Opts["alloc-bound"], fr.con.Where)
		x.specCheck(fr, st, x.label(fr.fn, v, "make")+".alloc-bound", "alloc-bound", c, map[string]Val{"__size": intVal(cp.S, types.Typ[types.Int])}, v)
	}
	r := x.allocRef(st)
	et := v.Type().Underlying().(*types.Slice).Elem()
	x.declZero(et)
	l := x.lazyFor(st, et)
	l.ups = append(l.ups, Upd{arr: r, zero: true})
	return Val{K: KSlice, T: v.Type(), Arr: r, Off: "0", Len: ln.S, Cap: cp.S}
}

func (x *Exec) slice(fr *Frame, st *State, v *ssa.Slice) Val {
	b := x.get(st, v.X)
	lo := "0"
	if v.Low != nil {
		lo = x.get(st, v.Low).S
	}
	t := v.Type()
	switch b.K {
	case KSlice:
		hi := b.Len
		if v.High != nil {
			hi = x.get(st, v.High).S
		}
		mx := b.Cap
		if v.Max != nil {
			mx = x.get(st, v.Max).S
			x.guard(fr, st, v, "bounds:slice", sAnd(sLe("0", lo), sLe(lo, hi), sLe(hi, mx), sLe(mx, b.Cap)))
		} else {
			x.guard(fr, st, v, "bounds:slice", sAnd(sLe("0", lo), sLe(lo, hi), sLe(hi, b.Cap)))
		}
		st.addIdxSeq(sAdd(b.Off, lo), b.Arr)
		st.addIdxSeq(sAdd(b.Off, hi), b.Arr)
		return Val{K: KSlice, T: t, Arr: b.Arr, Off: sAdd(b.Off, lo), Len: sSub(hi, lo), Cap: sSub(mx, lo)}
	case KStr:
		hi := x.strlen(b.S)
		if v.High != nil {
			hi = x.get(st, v.High).S
		}
		x.guard(fr, st, v, "bounds:slice", sAnd(sLe("0", lo), sLe(lo, hi), sLe(hi, x.strlen(b.S))))
		r := x.decls.Fresh("substr", "Str")
		st.assume(sEq(x.strlen(r), sSub(hi, lo)))
		return Val{K: KStr, T: t, S: r}
	case KRef, KAddr:
		// slicing a pointer to an array
		pt, ok := v.X.Type().Underlying().(*types.Pointer)
		if !ok {
			break
		}
		at, ok := pt.Elem().Underlying().(*types.Array)
		if !ok {
			break
		}
		n := sInt(at.Len())
		hi := n
		if v.High != nil {
			hi = x.get(st, v.High).S
		}
		x.guard(fr, st, v, "bounds:slice", sAnd(sLe("0", lo), sLe(lo, hi), sLe(hi, n)))
		if b.K == KRef && x.arrStorage[b.S] {
			return Val{K: KSlice, T: t, Arr: b.S, Off: lo, Len: sSub(hi, lo), Cap: sSub(n, lo)}
		}
		// array held as a value (field / global / cell): the slice is a copy (writes through it are not modelled)
		av := x.deref(st, b)
		r := x.allocRef(st)
		l := x.lazyFor(st, at.Elem())
		x.byteAt(av.S, "0", at.Elem()) // declares the element function
		l.ups = append(l.ups, Upd{arr: r, n: sInt(at.Len()), fromVal: av.S, fromFn: "elemAt." + typeName(at.Elem())})
		x.arrOrigin[r] = originInfo{val: av.S, t: pt.Elem(), n: at.Len()}
		x.note("array-valued location sliced at " + x.where(v) + ": the slice is modelled as a copy (no write-through)")
		return Val{K: KSlice, T: t, Arr: r, Off: lo, Len: sSub(hi, lo), Cap: sSub(n, lo)}
	}
	return opaque(t, "slice of "+kindName(b.K))
}

func (x *Exec) indexAddr(fr *Frame, st *State, v *ssa.IndexAddr) Val {
	b, i := x.get(st, v.X), x.get(st, v.Index)
	if i.K != KInt {
		return opaque(v.Type(), "index not an int")
	}
	switch b.K {
	case KSlice:
		x.guard(fr, st, v, "bounds:index", sAnd(sLe("0", i.S), sLt(i.S, b.Len)))
		st.addIdxSeq(sAdd(b.Off, i.S), b.Arr)
		et := b.T.Underlying().(*types.Slice).Elem()
		return Val{K: KAddr, T: v.Type(), A: &Addr{Kind: AElem, Base: b.Arr, Idx: sAdd(b.Off, i.S), Key: elemKey(et), T: et}}
	case KRef:
		pt, ok := v.X.Type().Underlying().(*types.Pointer)
		if !ok {
			break
		}
		at, ok := pt.Elem().Underlying().(*types.Array)
		if !ok {
			break
		}
		x.guard(fr, st, v, "bounds:index", sAnd(sLe("0", i.S), sLt(i.S, sInt(at.Len()))))
		if x.arrStorage[b.S] {
			// element-wise access: the storage no longer mirrors a single array value (conservative: any IndexAddr may be a store)
			delete(x.arrOrigin, b.S)
			return Val{K: KAddr, T: v.Type(), A: &Addr{Kind: AElem, Base: b.S, Idx: i.S, Key: elemKey(at.Elem()), T: at.Elem()}}
		}
	}
	return opaque(v.Type(), "element address in "+kindName(b.K)+" (array-valued location)")
}

func (x *Exec) index(fr *Frame, st *State, v *ssa.Index) Val {
	b, i := x.get(st, v.X), x.get(st, v.Index)
	if i.K != KInt {
		return opaque(v.Type(), "index not an int")
	}
	switch b.K {
	case KArr:
		at := b.T.Underlying().(*types.Array)
		x.guard(fr, st, v, "bounds:index", sAnd(sLe("0", i.S), sLt(i.S, sInt(at.Len()))))
		return Val{K: kindOf(at.Elem()), T: at.Elem(), S: x.byteAt(b.S, i.S, at.Elem())}
	case KStr:
		x.guard(fr, st, v, "bounds:index", sAnd(sLe("0", i.S), sLt(i.S, x.strlen(b.S))))
		x.decls.Fun("strbyte", []string{"Str", "Int"}, "Int")
		x.strbyteFacts()
		return intVal("(strbyte "+b.S+" "+i.S+")", v.Type())
	}
	return opaque(v.Type(), "index of "+kindName(b.K))
}

func (x *Exec) lookup(fr *Frame, st *State, v *ssa.Lookup) Val {
	m, k := x.get(st, v.X), x.get(st, v.Index)
	if m.K == KStr {
		x.guard(fr, st, v, "bounds:index", sAnd(sLe("0", k.S), sLt(k.S, x.strlen(m.S))))
		x.decls.Fun("strbyte", []string{"Str", "Int"}, "Int")
		x.strbyteFacts()
		return intVal("(strbyte "+m.S+" "+k.S+")", v.Type())
	}
	if m.K != KRef || k.K == KOpaque {
		return opaque(v.Type(), "lookup in "+kindName(m.K))
	}
	x.guardedAccess(fr, st, v, m, false)
	val, has := x.mapGet(st, m, k)
	if v.CommaOk {
		return Val{K: KTuple, T: v.Type(), Fs: []Val{val, boolVal(has)}}
	}
	return val
}

// ---------- range over maps (adversarial order) ----------

func (x *Exec) rangeInit(st *State, v *ssa.Range) Val {
	m := x.get(st, v.X)
	if m.K == KStr {
		panic(oos("range over string"))
	}
	if m.K != KRef {
		panic(oos("range over %s", kindName(m.K)))
	}
	mt := v.X.Type().Underlying().(*types.Map)
	ks := mapKeySort(mt)
	st.visited[v] = "((as const (Array " + ks + " Bool)) false)"
	x.iterMap[v] = m
	r := Val{K: KRef, T: v.Type(), S: "0", Why: "iter"}
	return r
}

func (x *Exec) next(fr *Frame, st *State, v *ssa.Next) Val {
	rg, ok := v.Iter.(*ssa.Range)
	if !ok || v.IsString {
		panic(oos("next over string"))
	}
	m := x.get(st, rg.X)
	mt := rg.X.Type().Underlying().(*types.Map)
	ks := mapKeySort(mt)
	vis, ok := st.visited[rg]
	if !ok {
		panic(oos("map iterator without range"))
	}
	okc := x.decls.Fresh("more", "Bool")
	k := x.freshVal(st, mt.Key(), "key")
	kk := flatten(k)[0]
	dom := x.mapDom(st, m.T).read(m.S)
	val := x.mapGetRaw(st, m, k)
	inDom := sAnd(sNot(sEq(m.S, "0")), sSel(dom, kk))
	st.assume(sImp(okc, sAnd(inDom, sNot(sSel(vis, kk)))))
	// exhausted: every key of the current domain has been visited
	qv := "qk?m" // contains ?: render-time pattern facts skip terms with bound variables
	st.assume(sImp(sNot(okc), sOr(sEq(m.S, "0"), fmt.Sprintf("(forall ((%s %s)) (=> (select %s %s) (select %s %s)))", qv, ks, dom, qv, vis, qv))))
	st.visitedKey = kk
	st.visited[rg] = sIte(okc, sSto(vis, kk, "true"), vis)
	return Val{K: KTuple, T: v.Type(), Fs: []Val{boolVal(okc), k, val}}
}

// boxFacts: a boxed value is a non-nil interface value of the given dynamic type, and boxing is injective
func (x *Exec) boxFacts(tag string, id int) {
	x.decls.Pat("app:"+tag, func(args []string) string {
		b := "(" + tag + " " + args[0] + ")"
		return sAnd(sNot(sEq(b, "0")), sEq("("+tag+".inv "+b+")", args[0]), sEq("(iface.tag "+b+")", sInt(int64(id))))
	})
}

// directWrite: `opt writes-only-via-callees=Type.field,...` -- the function under contract changes the elements of the slice / the
// entries of the map held in these fields only by calling its callees (whose contracts say what happens to the structure), never
// by a store, map update or delete of its own.  container is the SSA value that is indexed / updated: flagged if it is a load of
// one of the named fields.
func (x *Exec) directWrite(fr *Frame, st *State, in ssa.Instruction, container ssa.Value) {
	if fr.depth != 0 || fr.con == nil || fr.con.Opts["writes-only-via-callees"] == "" {
		return
	}
	u, ok := container.(*ssa.UnOp)
	if !ok || u.Op != token.MUL {
		return
	}
	fa, ok := u.X.(*ssa.FieldAddr)
	if !ok {
		return
	}
	pt, ok := fa.X.Type().Underlying().(*types.Pointer)
	if !ok {
		return
	}
	n, ok := pt.Elem().(*types.Named)
	if !ok {
		return
	}
	stt, ok := n.Underlying().(*types.Struct)
	if !ok {
		return
	}
	name := n.Obj().Name() + "." + stt.Field(fa.Field).Name()
	for _, f := range strings.Split(fr.con.Opts["writes-only-via-callees"], ",") {
		if strings.TrimSpace(f) == name {
			x.emit(fr, st, x.label(fr.fn, in, "write")+".direct-write:"+name, "discipline", atom("false"), in)
		}
	}
}
