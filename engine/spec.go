package main

// Spec-expression evaluator: Go expression syntax over symbolic states, formula trees with structured quantifiers.

import (
	"fmt"
	"go/ast"
	"go/constant"
	"go/parser"
	"go/token"
	"go/types"
	"math/big"
	"os"
	"sort"
	"strconv"
	"strings"

	"golang.org/x/tools/go/ssa"
)

// ---------- formula trees ----------

type F struct {
	Op       string // atom | and | or | not | imp | iff | forall | exists
	S        string
	Kids     []*F
	Var      string
	Lo       string
	Hi       string
	Body     func(term string) *F
	Sort     string                   // sort of the bound variable ("" = Int with range [Lo,Hi))
	Guard    func(term string) string // domain guard for non-integer quantifiers (map domain)
	seqs     []SeqRef
	seqsDone bool
	memo     map[string]*F
	exDone   bool
	hasEx    bool
	// OnAssume, when set on a positive forall, installs the fact by other means than instantiation (frameElems: render-time
	// pattern facts on the current base arrays); it reports whether it could
	OnAssume func(st *State, guard string) bool
}

// body instantiates the quantifier body (memoised: the same term always yields the same formula)
func (f *F) body(t string) *F {
	if strings.Contains(t, "?probe") {
		return f.Body(t) // probe evaluations record which sequences the variable indexes: a side effect, never memoised
	}
	if b, ok := f.memo[t]; ok {
		return b
	}
	b := f.Body(t)
	if f.memo == nil {
		f.memo = map[string]*F{}
	}
	f.memo[t] = b
	return b
}

func atom(s string) *F { return &F{Op: "atom", S: s} }

func (f *F) sort() string {
	if f.Sort == "" {
		return "Int"
	}
	return f.Sort
}

func (f *F) guard(t string) string {
	if f.Guard != nil {
		return f.Guard(t)
	}
	return sAnd(sLe(f.Lo, t), sLt(t, f.Hi))
}

func (f *F) hasQ() bool {
	switch f.Op {
	case "atom":
		return false
	case "forall", "exists":
		return true
	}
	for _, k := range f.Kids {
		if k.hasQ() {
			return true
		}
	}
	return false
}

// render gives the full SMT term of f (with real quantifiers); bound variables are named by nesting depth, so that
// two renderings of the same formula are identical strings
func render(f *F) string { return renderD(f, 0) }

func renderD(f *F, depth int) string {
	switch f.Op {
	case "atom":
		return f.S
	case "and":
		var ks []string
		for _, k := range f.Kids {
			ks = append(ks, renderD(k, depth))
		}
		return sAnd(ks...)
	case "or":
		var ks []string
		for _, k := range f.Kids {
			ks = append(ks, renderD(k, depth))
		}
		return sOr(ks...)
	case "not":
		return sNot(renderD(f.Kids[0], depth))
	case "imp":
		return sImp(renderD(f.Kids[0], depth), renderD(f.Kids[1], depth))
	case "iff":
		return sEq(renderD(f.Kids[0], depth), renderD(f.Kids[1], depth))
	case "forall", "exists":
		v := fmt.Sprintf("%s?%d", f.Var, depth)
		body := renderD(f.body(v), depth+1)
		g := f.guard(v)
		if f.Op == "forall" {
			return fmt.Sprintf("(forall ((%s %s)) %s)", v, f.sort(), sImp(g, body))
		}
		return fmt.Sprintf("(exists ((%s %s)) %s)", v, f.sort(), sAnd(g, body))
	}
	panic("render")
}

// nnf pushes negations inward
func nnf(f *F, neg bool) *F {
	switch f.Op {
	case "atom":
		if neg {
			return atom(sNot(f.S))
		}
		return f
	case "not":
		return nnf(f.Kids[0], !neg)
	case "and", "or":
		op := f.Op
		if neg {
			if op == "and" {
				op = "or"
			} else {
				op = "and"
			}
		}
		n := &F{Op: op}
		for _, k := range f.Kids {
			n.Kids = append(n.Kids, nnf(k, neg))
		}
		return n
	case "imp":
		if neg {
			return &F{Op: "and", Kids: []*F{nnf(f.Kids[0], false), nnf(f.Kids[1], true)}}
		}
		return &F{Op: "or", Kids: []*F{nnf(f.Kids[0], true), nnf(f.Kids[1], false)}}
	case "iff":
		if !f.hasQ() {
			if neg {
				return atom(sNot(render(f)))
			}
			return atom(render(f))
		}
		a, b := f.Kids[0], f.Kids[1]
		if neg {
			return &F{Op: "or", Kids: []*F{
				{Op: "and", Kids: []*F{nnf(a, false), nnf(b, true)}},
				{Op: "and", Kids: []*F{nnf(a, true), nnf(b, false)}}}}
		}
		return &F{Op: "and", Kids: []*F{
			{Op: "or", Kids: []*F{nnf(a, true), nnf(b, false)}},
			{Op: "or", Kids: []*F{nnf(b, true), nnf(a, false)}}}}
	case "forall", "exists":
		op := f.Op
		if neg {
			if op == "forall" {
				op = "exists"
			} else {
				op = "forall"
			}
		}
		body := f.Body
		n := &F{Op: op, Var: f.Var, Lo: f.Lo, Hi: f.Hi, Sort: f.Sort, Guard: f.Guard, Body: func(t string) *F { return nnf(body(t), neg) }}
		if !neg {
			n.OnAssume = f.OnAssume
		}
		return n
	}
	panic("nnf")
}

// ---------- assumptions ----------

// assumeF adds f (in NNF) to the path condition; positive foralls become instantiable items, exists are skolemised
func (x *Exec) assumeF(st *State, f *F) {
	x.assumeNNF(st, nnf(f, false))
}

func (x *Exec) assumeNNF(st *State, f *F) { x.assumeG(st, "true", f) }

// assumeG assumes guard ==> f for f in NNF, keeping quantifiers structured
func (x *Exec) assumeG(st *State, guard string, f *F) {
	if guard == "false" {
		return
	}
	switch f.Op {
	case "atom":
		st.assume(sImp(guard, f.S))
	case "and":
		for _, k := range f.Kids {
			x.assumeG(st, guard, k)
		}
	case "exists":
		c := x.decls.Fresh("sk."+f.Var, f.sort())
		st.assume(sImp(guard, f.guard(c)))
		if f.Sort == "" {
			st.addIdx(c)
		} else {
			st.addKey(c, f.Sort)
		}
		x.assumeG(st, guard, x.bodyLogged(st, f, c))
	case "forall":
		if f.OnAssume != nil && f.OnAssume(st, guard) {
			return
		}
		if guard != "true" {
			body := f.Body
			f = &F{Op: "forall", Var: f.Var, Lo: f.Lo, Hi: f.Hi, Sort: f.Sort, Guard: f.Guard, Body: func(t string) *F {
				return &F{Op: "or", Kids: []*F{atom(sNot(guard)), body(t)}}
			}}
		}
		key := render(f)
		if st.qfSeen[key] {
			return
		}
		st.qfSeen[key] = true
		st.pc = append(st.pc, PCItem{QF: f})
	case "or":
		if !f.hasQ() {
			st.assume(sImp(guard, render(f)))
			return
		}
		var plain []string
		var qs []*F
		for _, k := range f.Kids {
			if k.hasQ() {
				qs = append(qs, k)
			} else {
				plain = append(plain, render(k))
			}
		}
		if len(qs) == 1 {
			x.assumeG(st, sAnd(guard, sNot(sOr(plain...))), qs[0])
			return
		}
		st.assume(sImp(guard, render(f)))
	default:
		st.assume(sImp(guard, render(f)))
	}
}

// instTerms: instantiate a positive forall over the given terms (plus the quantified formula itself)
// seqsOf discovers which sequences the bound variable of a quantifier indexes (by evaluating the body with a probe variable)
func (x *Exec) seqsOf(f *F) []SeqRef {
	if f.seqsDone {
		return f.seqs
	}
	var got []SeqRef
	saved, savedVar := x.probe, x.probeVar
	x.probe = &got
	x.probeVar = f.Var + "?probe"
	func() {
		defer func() { recover() }()
		render(f.body(f.Var + "?probe"))
	}()
	x.probe, x.probeVar = saved, savedVar
	f.seqsDone = true
	f.seqs = got
	return got
}

// bodyLogged evaluates a quantifier body at term t and records the (index, sequence) pairs it reads into st
func (x *Exec) bodyLogged(st *State, f *F, t string) *F {
	var buf []IdxT
	saved := x.idxLog
	x.idxLog = &buf
	b := f.body(t)
	if b.hasQ() {
		// nested quantifiers are evaluated lazily; force one rendering so that their reads are seen
		func() {
			defer func() { recover() }()
			render(b)
		}()
	}
	x.idxLog = saved
	for _, it := range buf {
		st.addIdxSeq(it.T, it.Seq)
	}
	return b
}

// mayAlias: the index term's sequence a may denote the quantifier's sequence b (syntactically equal, contained, or via append aliases)
func (x *Exec) mayAlias(a, b string, depth int) bool {
	if a == b || (len(b) > 3 && strings.Contains(a, b)) {
		return true
	}
	if depth > 4 {
		return false
	}
	for _, c := range x.alias[a] {
		if x.mayAlias(c, b, depth+1) {
			return true
		}
	}
	for _, c := range x.alias[b] {
		if c == a {
			return true
		}
	}
	return false
}

// SeqRef: a quantifier body reads sequence Arr at absolute index Off + boundvar
type SeqRef struct{ Arr, Off string }

// candidates turns the path's (absolute index, sequence) pairs into values for the bound variable of f
func (x *Exec) candidates(f *F, terms []IdxT) []string {
	seqs := x.seqsOf(f)
	seen := map[string]bool{}
	var out []string
	add := func(t string) {
		if !seen[t] && !strings.Contains(t, "?probe") {
			seen[t] = true
			out = append(out, t)
		}
	}
	for _, it := range terms {
		if it.Seq == "" {
			continue
		}
		for _, s := range seqs {
			if strings.Contains(s.Arr, "?probe") || x.mayAlias(it.Seq, s.Arr, 0) {
				add(sSub(it.T, s.Off))
			}
		}
	}
	for _, it := range terms {
		if it.Seq == "" || len(seqs) == 0 {
			add(it.T)
		}
	}
	// terms built from skolem constants (witnesses of the goal / of existential assumptions) first, shortest first
	sort.SliceStable(out, func(i, j int) bool {
		si, sj := strings.Contains(out[i], "sk."), strings.Contains(out[j], "sk.")
		if si != sj {
			return si
		}
		return len(out[i]) < len(out[j])
	})
	return out
}

func (x *Exec) instantiate(f *F, terms []IdxT, depth int, out *[]string) {
	switch f.Op {
	case "forall":
		if f.Sort != "" {
			// quantifier over a map domain: instantiate with the key terms seen on the path
			if x.withQ {
				*out = append(*out, render(f))
			}
			n := 0
			for _, k := range x.curKeys {
				if k.Sort != f.Sort {
					continue
				}
				n++
				if n > 12 {
					break
				}
				var sub []string
				x.instantiate(f.body(k.T), terms, depth+1, &sub)
				if os.Getenv("GOVC_DEBUG_CAND") != "" && sAnd(sub...) == "false" {
					fmt.Fprintf(os.Stderr, "FALSE INSTANCE of forallKeys %s at %s: %v\n", f.Var, truncate(k.T, 120), sub)
				}
				*out = append(*out, sImp(f.guard(k.T), sAnd(sub...)))
			}
			return
		}
		if x.bound >= 0 {
			// bounded refutation: expand exactly, under the extra assumption that the range is short
			*out = append(*out, sLe(sSub(f.Hi, f.Lo), sInt(int64(x.bound))))
			for i := 0; i < x.bound; i++ {
				t := sAdd(f.Lo, sInt(int64(i)))
				var sub []string
				x.instantiate(f.body(t), terms, depth+1, &sub)
				*out = append(*out, sImp(sLt(t, f.Hi), sAnd(sub...)))
			}
			return
		}
		if x.withQ {
			*out = append(*out, render(f))
		}
		if depth > 1 {
			if !x.withQ {
				*out = append(*out, "true")
			}
			return
		}
		n := 0
		if os.Getenv("GOVC_DEBUG_CAND") != "" && depth == 0 {
			fmt.Fprintf(os.Stderr, "CAND for %s in [%s,%s): seqs=%v\n", f.Var, truncate(f.Lo, 30), truncate(f.Hi, 60), x.seqsOf(f))
			for _, t := range x.candidates(f, terms) {
				fmt.Fprintf(os.Stderr, "   %s\n", truncate(t, 200))
			}
		}
		for _, t := range x.candidates(f, terms) {
			n++
			if (depth == 0 && n > 24) || (depth == 1 && n > 14) {
				break
			}
			var sub []string
			x.instantiate(f.body(t), terms, depth+1, &sub)
			*out = append(*out, sImp(f.guard(t), sAnd(sub...)))
		}
	case "and":
		for _, k := range f.Kids {
			x.instantiate(k, terms, depth, out)
		}
	case "or":
		if !f.hasQ() {
			*out = append(*out, render(f))
			return
		}
		var ds []string
		for _, k := range f.Kids {
			var sub []string
			x.instantiate(k, terms, depth, &sub)
			ds = append(ds, sAnd(sub...))
		}
		*out = append(*out, sOr(ds...))
	case "exists":
		if x.bound >= 0 {
			var ds []string
			for i := 0; i < x.bound; i++ {
				t := sAdd(f.Lo, sInt(int64(i)))
				ds = append(ds, sAnd(sLt(t, f.Hi), render(f.body(t))))
			}
			*out = append(*out, sLe(sSub(f.Hi, f.Lo), sInt(int64(x.bound))), sOr(ds...))
			return
		}
		*out = append(*out, render(f))
	default:
		*out = append(*out, render(f))
	}
}

// ---------- goals ----------

// proveF emits obligations for goal f under st (st is not modified except through assumeGoal when requested)
func (x *Exec) proveF(fr *Frame, st *State, name, kind string, f *F, in ssa.Instruction) {
	x.proveNNF(fr, st, name, kind, nnf(f, false), in)
}

func (x *Exec) proveNNF(fr *Frame, st *State, name, kind string, f *F, in ssa.Instruction) {
	switch f.Op {
	case "and":
		if f.hasQ() {
			for i, k := range f.Kids {
				nm := name
				if len(f.Kids) > 1 {
					nm = fmt.Sprintf("%s.%d", name, i)
				}
				x.proveNNF(fr, st, nm, kind, k, in)
			}
			return
		}
	case "forall":
		if st.qfSeen[render(f)] {
			return // literally one of the assumptions
		}
		s2 := st.clone()
		c := x.decls.Fresh("sk."+f.Var, f.sort())
		s2.assume(f.guard(c))
		if f.Sort == "" {
			s2.addIdxFront(c)
		} else {
			s2.addKey(c, f.Sort)
		}
		x.proveNNF(fr, s2, name, kind, x.bodyLogged(s2, f, c), in)
		return
	case "or":
		if f.hasQ() {
			// assume the negations of the plain disjuncts, prove the (single) quantified one
			var qs []*F
			s2 := st.clone()
			for _, k := range f.Kids {
				if k.hasQ() {
					qs = append(qs, k)
				} else {
					s2.assume(sNot(render(k)))
				}
			}
			if len(qs) == 1 {
				x.proveNNF(fr, s2, name, kind, qs[0], in)
				return
			}
			// several quantified disjuncts: assume the negation of all but the last
			for _, q := range qs[:len(qs)-1] {
				x.assumeNNF(s2, nnf(q, true))
			}
			x.proveNNF(fr, s2, name, kind, qs[len(qs)-1], in)
			return
		}
	case "exists":
		// instantiate with candidate terms; keep the quantified form as a last resort
		var ds []string
		if f.Sort != "" {
			for _, k := range st.keys {
				if k.Sort == f.Sort {
					ds = append(ds, sAnd(f.guard(k.T), render(f.body(k.T))))
				}
			}
			ds = append(ds, render(f))
			x.emit(fr, st, name, kind, atom(sOr(ds...)), in)
			return
		}
		if x.bound >= 0 {
			s2 := st.clone()
			s2.assume(sLe(sSub(f.Hi, f.Lo), sInt(int64(x.bound))))
			for i := 0; i < x.bound; i++ {
				t := sAdd(f.Lo, sInt(int64(i)))
				ds = append(ds, sAnd(sLt(t, f.Hi), render(f.body(t))))
			}
			x.emit(fr, s2, name, kind, atom(sOr(ds...)), in)
			return
		}
		// assumptions of the form forall a. ... exists b. P(a, b) supply witnesses: instantiate them eagerly at the terms of this
		// path (on a copy of the state); assumeG skolemises the existential and registers the skolem as an index term, which then
		// is a candidate witness for the goal
		st2, witnesses := x.eagerWitnesses(st)
		st = st2
		cands := append(witnesses, x.candidates(f, x.extTerms(st.idx))...)
		cands = append(cands, f.Lo, sSub(f.Hi, "1"))
		if len(cands) > 24 {
			cands = cands[:24]
		}
		for _, t := range cands {
			ds = append(ds, sAnd(f.guard(t), render(f.body(t))))
		}
		ds = append(ds, render(f))
		x.emit(fr, st, name, kind, atom(sOr(ds...)), in)
		return
	}
	x.emit(fr, st, name, kind, atom(render(f)), in)
}

func (x *Exec) eagerWitnesses(st *State) (*State, []string) {
	var todo []*F
	for _, it := range st.pc {
		if it.QF != nil && it.QF.Op == "forall" && it.QF.Sort == "" && x.bodyHasExists(it.QF) {
			todo = append(todo, it.QF)
		}
	}
	if len(todo) == 0 {
		return st, nil
	}
	s2 := st.clone()
	terms := x.extTerms(st.idx)
	nIdx := len(s2.idx)
	for _, q := range todo {
		n := 0
		for _, t := range x.candidates(q, terms) {
			// only at the skolem constants of the goal (its universally quantified variables), not at their neighbours
			if !strings.HasPrefix(t, "sk.") || strings.ContainsAny(t, " (") {
				continue
			}
			if n++; n > 3 {
				break
			}
			key := "eager|" + render(q) + "|" + t
			if s2.qfSeen[key] {
				continue
			}
			s2.qfSeen[key] = true
			x.assumeG(s2, q.guard(t), q.body(t))
		}
	}
	// the witnesses serve the existential goal only: they are not index terms for the other quantified assumptions (each one
	// would multiply the instances of every nested forall)
	var ws []string
	for _, it := range s2.idx[nIdx:] {
		ws = append(ws, it.T)
	}
	s2.idx = s2.idx[:nIdx]
	return s2, ws
}

// bodyHasExists: does the body of a universally quantified assumption contain an existential (in positive position, NNF)?
func (x *Exec) bodyHasExists(f *F) bool {
	if f.exDone {
		return f.hasEx
	}
	f.exDone = true
	func() {
		defer func() { recover() }()
		var walk func(g *F, depth int) bool
		walk = func(g *F, depth int) bool {
			switch g.Op {
			case "exists":
				return true
			case "forall":
				if depth > 2 {
					return false
				}
				return walk(g.body(g.Var+"?probe"), depth+1)
			}
			for _, k := range g.Kids {
				if walk(k, depth) {
					return true
				}
			}
			return false
		}
		saved, savedVar := x.probe, x.probeVar
		var sink []SeqRef
		x.probe, x.probeVar = &sink, f.Var+"?probe"
		defer func() { x.probe, x.probeVar = saved, savedVar }()
		f.hasEx = walk(f.body(f.Var+"?probe"), 0)
	}()
	return f.hasEx
}

func (st *State) addIdxFront(t string) {
	st.idx = append([]IdxT{{t, ""}}, st.idx...)
}

// ---------- spec environment ----------

type SpecEnv struct {
	x      *Exec
	fr     *Frame
	st     *State
	old    *State
	names  map[string]Val
	pkg    string // package path suffix for name resolution
	depth  int
	locals *State // state whose local-variable bindings are visible inside old()
	// in loop invariants and in-body assertions a re-assigned parameter denotes its CURRENT value (old(p) the entry value);
	// in pre- and postconditions a parameter always denotes the value passed by the caller
	curParams bool
	// condition under which the sub-expression being evaluated matters (antecedents of ==>, left operands of && and ||):
	// well-definedness of pure calls is proved, and their contracts assumed, under it
	g string
}

func (x *Exec) specEnvAt(fr *Frame, st, old *State, extra map[string]Val) *SpecEnv {
	names := map[string]Val{}
	for k, v := range fr.names {
		names[k] = v
	}
	for k, v := range extra {
		names[k] = v
	}
	pkg := ""
	if fr.con != nil {
		pkg = fr.con.Pkg
	} else if fr.fn != nil && fr.fn.Pkg != nil {
		pkg = x.eng.pkgSuffix(fr.fn.Pkg.Pkg.Path())
	}
	return &SpecEnv{x: x, fr: fr, st: st, old: old, names: names, pkg: pkg}
}

func (e *SpecEnv) with(names map[string]Val) *SpecEnv {
	n := *e
	n.names = map[string]Val{}
	for k, v := range e.names {
		n.names[k] = v
	}
	for k, v := range names {
		n.names[k] = v
	}
	return &n
}

type specErr struct {
	msg        string
	rebindable string // an unknown local name inside a loop invariant (may be a renamed local: Engine.rebind)
}

func (e specErr) Error() string { return e.msg }

func sfail(format string, args ...interface{}) {
	panic(specErr{msg: fmt.Sprintf(format, args...)})
}

func (v Val) formula() *F {
	if v.Q != nil {
		return v.Q
	}
	return atom(v.S)
}

func bval(f *F) Val {
	if f.Op == "atom" {
		return boolVal(f.S)
	}
	return Val{K: KBool, T: types.Typ[types.Bool], S: render(f), Q: f}
}

func (e *SpecEnv) evalBool(n ast.Expr) Val {
	v := e.eval(n)
	if v.K != KBool {
		sfail("expected a boolean spec expression, got %s in %s", kindName(v.K), exprString(n))
	}
	return v
}

func exprString(n ast.Expr) string {
	return types.ExprString(n)
}

func (e *SpecEnv) eval(n ast.Expr) Val {
	switch v := n.(type) {
	case *ast.ParenExpr:
		return e.eval(v.X)
	case *ast.BasicLit:
		switch v.Kind {
		case token.INT:
			b, ok := new(big.Int).SetString(v.Value, 0)
			if !ok {
				sfail("bad integer literal %s", v.Value)
			}
			return intVal(sBig(b), types.Typ[types.UntypedInt])
		case token.STRING:
			s, _ := strconv.Unquote(v.Value)
			return Val{K: KStr, T: types.Typ[types.String], S: e.x.strLit(s)}
		case token.CHAR:
			s, _ := strconv.Unquote(v.Value)
			return intVal(sInt(int64([]rune(s)[0])), types.Typ[types.UntypedRune])
		}
		sfail("unsupported literal %s", v.Value)
	case *ast.Ident:
		return e.ident(v.Name)
	case *ast.UnaryExpr:
		a := e.eval(v.X)
		switch v.Op {
		case token.NOT:
			if a.K != KBool {
				sfail("! on non-bool")
			}
			return bval(&F{Op: "not", Kids: []*F{a.formula()}})
		case token.SUB:
			return intVal(sSub("0", a.S), a.T)
		case token.AND:
			return a // &x in specs: addresses are not distinguished
		}
		sfail("unsupported unary operator %s", v.Op)
	case *ast.StarExpr:
		p := e.eval(v.X)
		return e.x.deref(e.st, p)
	case *ast.BinaryExpr:
		return e.binary(v)
	case *ast.SelectorExpr:
		return e.selector(v)
	case *ast.IndexExpr:
		b := e.eval(v.X)
		i := e.eval(v.Index)
		switch b.K {
		case KSlice:
			e.st.addIdxSeq(sAdd(b.Off, i.S), b.Arr)
			if e.x.idxLog != nil {
				*e.x.idxLog = append(*e.x.idxLog, IdxT{sAdd(b.Off, i.S), b.Arr})
			}
			if e.x.probe != nil && strings.Contains(i.S, "?probe") && !strings.Contains(b.Off, "?probe") {
				// index of the form (probe + delta): remember the base offset of the bound variable
				delta := "0"
				if i.S != e.x.probeVar {
					delta = sSub(i.S, e.x.probeVar)
					if strings.Contains(delta, "?probe") {
						delta = ""
					}
				}
				if delta != "" {
					*e.x.probe = append(*e.x.probe, SeqRef{b.Arr, sAdd(b.Off, delta)})
				}
			}
			return e.x.elemRead(e.st, b, i.S)
		case KRef:
			if _, ok := b.T.Underlying().(*types.Map); ok {
				return e.x.mapGetRaw(e.st, b, i)
			}
		case KArr:
			at := b.T.Underlying().(*types.Array)
			return Val{K: kindOf(at.Elem()), T: at.Elem(), S: e.x.byteAt(b.S, i.S, at.Elem())}
		case KStr:
			e.x.decls.Fun("strbyte", []string{"Str", "Int"}, "Int")
			return intVal("(strbyte "+b.S+" "+i.S+")", types.Typ[types.Uint8])
		}
		sfail("index of %s value in %s", kindName(b.K), exprString(n))
	case *ast.SliceExpr:
		b := e.eval(v.X)
		if b.K != KSlice {
			sfail("slice expression on %s", kindName(b.K))
		}
		lo, hi := "0", b.Len
		if v.Low != nil {
			lo = e.eval(v.Low).S
		}
		if v.High != nil {
			hi = e.eval(v.High).S
		}
		return Val{K: KSlice, T: b.T, Arr: b.Arr, Off: sAdd(b.Off, lo), Len: sSub(hi, lo), Cap: sSub(b.Cap, lo)}
	case *ast.CallExpr:
		return e.call(v)
	case *ast.TypeAssertExpr:
		// x.(T) for a concrete scalar type T: the payload of the interface value (meaningful where typeIs(x, T) holds)
		a := e.eval(v.X)
		at := e.x.eng.resolveType(e.pkg, v.Type)
		if at == nil || a.K != KRef {
			sfail("unsupported type assertion %s in a spec", exprString(n))
		}
		switch kindOf(at) {
		case KRef, KInt, KBool, KStr, KArr:
			tag := "box." + typeName(at)
			e.x.tagID(tag)
			argS := "Int"
			if kindOf(at) != KRef {
				argS = sortOfKind(kindOf(at))
			}
			e.x.decls.Fun(tag, []string{argS}, "Int")
			e.x.decls.Fun(tag+".inv", []string{"Int"}, argS)
			return Val{K: kindOf(at), T: at, S: "(" + tag + ".inv " + a.S + ")"}
		}
		sfail("type assertion to %s is not supported in specs", exprString(v.Type))
	case *ast.CompositeLit:
		// T{}: the zero value of a named array or struct type
		if len(v.Elts) == 0 {
			if t := e.x.eng.resolveType(e.pkg, v.Type); t != nil {
				e.x.declZero(t)
				return zeroVal(t)
			}
		}
	}
	sfail("unsupported spec expression %s (%T)", exprString(n), n)
	return Val{}
}

func (e *SpecEnv) ident(name string) Val {
	if e.curParams && e.locals == nil && e.fr != nil && e.fr.fn != nil {
		// a parameter that the function re-assigns: outside old() its name denotes the current value
		if v, ok := e.st.dbg[name]; ok && isParamName(e.fr.fn, name) {
			if _, bound := e.names[name]; bound && e.fr.names != nil {
				if pv, isP := e.fr.names[name]; isP && pv.S == e.names[name].S {
					return v
				}
			}
		}
	}
	if v, ok := e.names[name]; ok {
		return v
	}
	switch name {
	case "nil":
		return refVal("0", types.Typ[types.UntypedNil])
	case "true":
		return boolVal("true")
	case "false":
		return boolVal("false")
	}
	if v, ok := e.st.dbg[name]; ok {
		return v
	}
	if p, ok := e.st.dbgAddr[name]; ok {
		return e.x.deref(e.st, p)
	}
	if e.locals != nil {
		// inside old(): local variables keep their current values, only heap reads go to the pre-state
		if v, ok := e.locals.dbg[name]; ok {
			return v
		}
	}
	if g, ok := e.st.ghost[name]; ok {
		return g
	}
	if v, ok := e.pkgObject(e.pkg, name); ok {
		return v
	}
	// a name that only loop invariants use and that is no local of the code any more (Engine.verifyFunc)
	if to, ok := e.x.rebind[name]; ok && to != name {
		if _, chained := e.x.rebind[to]; !chained {
			return e.ident(to)
		}
	}
	if e.x.rebindOK && e.depth <= 1 {
		panic(specErr{msg: fmt.Sprintf("unknown identifier %q in spec (package %s)", name, e.pkg), rebindable: name})
	}
	sfail("unknown identifier %q in spec (package %s)", name, e.pkg)
	return Val{}
}

// pkgObject resolves a package-level constant or variable
func (e *SpecEnv) pkgObject(pkgSuffix, name string) (Val, bool) {
	tp := e.x.eng.typesPkg(pkgSuffix)
	if tp == nil {
		return Val{}, false
	}
	obj := tp.Scope().Lookup(name)
	switch o := obj.(type) {
	case *types.Const:
		switch o.Val().Kind() {
		case constant.Int:
			b, _ := new(big.Int).SetString(o.Val().ExactString(), 10)
			return intVal(sBig(b), o.Type()), true
		case constant.Bool:
			return boolVal(fmt.Sprint(constant.BoolVal(o.Val()))), true
		case constant.String:
			return Val{K: KStr, T: o.Type(), S: e.x.strLit(constant.StringVal(o.Val()))}, true
		case constant.Float:
			if i := constant.ToInt(o.Val()); i.Kind() == constant.Int {
				b, _ := new(big.Int).SetString(i.ExactString(), 10)
				return intVal(sBig(b), types.Typ[types.UntypedInt]), true
			}
		}
	case *types.Var:
		key := "G." + sanitize(pkgSuffix) + "." + name
		et := o.Type()
		if kindOf(et) == KStruct {
			ref := e.x.decls.Const("gref."+sanitize(pkgSuffix)+"."+name, "Int")
			return e.x.loadObj(e.st, ref, et), true
		}
		if isErrorType(et) {
			return e.x.errConst(key), true
		}
		return e.x.readComps(e.st, key, et, "0"), true
	}
	return Val{}, false
}

func (e *SpecEnv) binary(v *ast.BinaryExpr) Val {
	switch v.Op {
	case token.LAND, token.LOR:
		a := e.evalBool(v.X)
		op := "and"
		if v.Op == token.LOR {
			op = "or"
		}
		saved := e.g
		if a.Q == nil {
			if op == "and" {
				e.g = sAnd(e.gd(), a.S)
			} else {
				e.g = sAnd(e.gd(), sNot(a.S))
			}
		}
		b := e.evalBool(v.Y)
		e.g = saved
		if a.Q == nil && b.Q == nil {
			if op == "and" {
				return boolVal(sAnd(a.S, b.S))
			}
			return boolVal(sOr(a.S, b.S))
		}
		return bval(&F{Op: op, Kids: []*F{a.formula(), b.formula()}})
	}
	a, b := e.eval(v.X), e.eval(v.Y)
	switch v.Op {
	case token.EQL, token.NEQ:
		var eq string
		if a.K == KBool && b.K == KBool && (a.Q != nil || b.Q != nil) {
			f := &F{Op: "iff", Kids: []*F{a.formula(), b.formula()}}
			if v.Op == token.NEQ {
				f = &F{Op: "not", Kids: []*F{f}}
			}
			return bval(f)
		}
		eq = e.x.valEq(a, b)
		if eq == "" {
			sfail("cannot compare %s with %s in %s", kindName(a.K), kindName(b.K), exprString(v))
		}
		if v.Op == token.NEQ {
			return boolVal(sNot(eq))
		}
		return boolVal(eq)
	}
	if a.K != KInt || b.K != KInt {
		sfail("arithmetic on %s/%s in %s", kindName(a.K), kindName(b.K), exprString(v))
	}
	t := a.T
	if bt, ok := t.(*types.Basic); ok && bt.Info()&types.IsUntyped != 0 {
		t = b.T
	}
	switch v.Op {
	case token.ADD:
		return intVal(sAdd(a.S, b.S), t)
	case token.SUB:
		return intVal(sSub(a.S, b.S), t)
	case token.MUL:
		return intVal(sMul(a.S, b.S), t)
	case token.QUO:
		return intVal("(div "+a.S+" "+b.S+")", t)
	case token.REM:
		return intVal("(mod "+a.S+" "+b.S+")", t)
	case token.LSS:
		return boolVal(sLt(a.S, b.S))
	case token.LEQ:
		return boolVal(sLe(a.S, b.S))
	case token.GTR:
		return boolVal(sLt(b.S, a.S))
	case token.GEQ:
		return boolVal(sLe(b.S, a.S))
	case token.SHL:
		if k, ok := litVal(b.S); ok && k.IsInt64() {
			return intVal(sMul(a.S, pow2(int(k.Int64()))), t)
		}
	case token.SHR:
		if k, ok := litVal(b.S); ok && k.IsInt64() {
			return intVal("(div "+a.S+" "+pow2(int(k.Int64()))+")", t)
		}
	}
	sfail("unsupported binary operator %s", v.Op)
	return Val{}
}

func (e *SpecEnv) selector(v *ast.SelectorExpr) Val {
	// package-qualified name?
	if id, ok := v.X.(*ast.Ident); ok {
		if _, bound := e.names[id.Name]; !bound {
			if _, isLocal := e.st.dbg[id.Name]; !isLocal {
				if _, isAddr := e.st.dbgAddr[id.Name]; !isAddr {
					if ps := e.x.eng.resolvePkgName(e.pkg, id.Name); ps != "" {
						if r, ok := e.pkgObject(ps, v.Sel.Name); ok {
							return r
						}
						sfail("unknown object %s.%s", id.Name, v.Sel.Name)
					}
				}
			}
		}
	}
	base := e.eval(v.X)
	return e.x.fieldOf(e.st, base, v.Sel.Name)
}

// fieldOf reads field name of a struct value / pointer to struct (auto-deref, embedded fields promoted one level)
func (x *Exec) fieldOf(st *State, base Val, name string) Val {
	switch base.K {
	case KStruct:
		stt := base.T.Underlying().(*types.Struct)
		for i := 0; i < stt.NumFields(); i++ {
			if stt.Field(i).Name() == name {
				return base.Fs[i]
			}
		}
		for i := 0; i < stt.NumFields(); i++ {
			if stt.Field(i).Embedded() {
				f := base.Fs[i]
				if f.K == KStruct || f.K == KRef {
					if r, ok := x.tryFieldOf(st, f, name); ok {
						return r
					}
				}
			}
		}
	case KRef:
		pt, ok := base.T.Underlying().(*types.Pointer)
		if !ok {
			sfail("field %s of non-pointer %v", name, base.T)
		}
		stt, ok := pt.Elem().Underlying().(*types.Struct)
		if !ok {
			sfail("field %s of pointer to non-struct %v", name, base.T)
		}
		for i := 0; i < stt.NumFields(); i++ {
			if stt.Field(i).Name() == name {
				a := x.fieldAddr(st, base.S, pt.Elem(), i)
				if a.K == KRef {
					return x.loadObj(st, a.S, stt.Field(i).Type())
				}
				return x.loadAddr(st, a.A)
			}
		}
		for i := 0; i < stt.NumFields(); i++ {
			if stt.Field(i).Embedded() {
				a := x.fieldAddr(st, base.S, pt.Elem(), i)
				var f Val
				if a.K == KRef {
					f = a
				} else {
					f = x.loadAddr(st, a.A)
				}
				if r, ok := x.tryFieldOf(st, f, name); ok {
					return r
				}
			}
		}
	}
	sfail("no field %s in %s value of type %v", name, kindName(base.K), base.T)
	return Val{}
}

func (x *Exec) tryFieldOf(st *State, base Val, name string) (r Val, ok bool) {
	defer func() {
		if e := recover(); e != nil {
			if _, is := e.(specErr); is {
				ok = false
				return
			}
			panic(e)
		}
	}()
	return x.fieldOf(st, base, name), true
}

// ---------- calls in specs ----------

func (e *SpecEnv) call(c *ast.CallExpr) Val {
	if id, ok := c.Fun.(*ast.Ident); ok {
		if v, ok := e.builtinSpec(id.Name, c); ok {
			return v
		}
		// conversion to a basic integer type
		if bt := basicByName(id.Name); bt != nil && len(c.Args) == 1 {
			a := e.eval(c.Args[0])
			a.T = bt
			return a
		}
		if sf := e.x.eng.cs.Specs[e.pkg+"."+id.Name]; sf != nil {
			return e.specFunc(sf, c.Args)
		}
		if sf := e.x.eng.cs.Specs["."+id.Name]; sf != nil {
			return e.specFunc(sf, c.Args)
		}
		if lm := e.x.eng.findLemma(e.pkg, id.Name); lm != nil {
			return e.lemmaInstance(lm, c.Args)
		}
		// package-level function of the current package
		if fn := e.x.eng.findFunc(e.pkg + "." + id.Name); fn != nil {
			var args []Val
			for _, a := range c.Args {
				args = append(args, e.eval(a))
			}
			return e.callFunc(fn, args)
		}
		sfail("unknown spec function %s", id.Name)
	}
	sel, ok := c.Fun.(*ast.SelectorExpr)
	if !ok {
		sfail("unsupported call %s", exprString(c))
	}
	// pkg.F(args) ?
	if id, ok := sel.X.(*ast.Ident); ok {
		_, bound := e.names[id.Name]
		_, isLocal := e.st.dbg[id.Name]
		_, isAddr := e.st.dbgAddr[id.Name]
		if !bound && !isLocal && !isAddr {
			if ps := e.x.eng.resolvePkgName(e.pkg, id.Name); ps != "" {
				if sf := e.x.eng.cs.Specs[ps+"."+sel.Sel.Name]; sf != nil {
					return e.specFunc(sf, c.Args)
				}
				var args []Val
				for _, a := range c.Args {
					args = append(args, e.eval(a))
				}
				if fn := e.x.eng.findFunc(ps + "." + sel.Sel.Name); fn != nil {
					return e.callFunc(fn, args)
				}
				// conversion to a named type pkg.T(x)
				if tp := e.x.eng.typesPkg(ps); tp != nil {
					if tn, ok := tp.Scope().Lookup(sel.Sel.Name).(*types.TypeName); ok && len(args) == 1 {
						a := args[0]
						a.T = tn.Type()
						return a
					}
				}
				sfail("unknown function %s.%s", id.Name, sel.Sel.Name)
			}
		}
	}
	recv := e.eval(sel.X)
	var args []Val
	for _, a := range c.Args {
		args = append(args, e.eval(a))
	}
	return e.method(recv, sel.Sel.Name, args)
}

func basicByName(n string) types.Type {
	for _, b := range types.Typ {
		if b.Name() == n && b.Info()&types.IsInteger != 0 {
			return b
		}
	}
	if n == "byte" {
		return types.Typ[types.Uint8]
	}
	return nil
}

func (e *SpecEnv) method(recv Val, name string, args []Val) Val {
	if recv.T == nil {
		sfail("method %s on untyped value", name)
	}
	// interface receiver
	if it, ok := recv.T.Underlying().(*types.Interface); ok {
		_ = it
		key := e.x.eng.ifaceKey(recv.T, name)
		con := e.x.eng.cs.Funcs[key]
		var sig *types.Signature
		ms := types.NewMethodSet(recv.T)
		for i := 0; i < ms.Len(); i++ {
			if ms.At(i).Obj().Name() == name {
				sig = ms.At(i).Type().(*types.Signature)
			}
		}
		if sig == nil {
			sfail("no method %s on %v", name, recv.T)
		}
		return e.pureApply(key, con, sig, append([]Val{recv}, args...), nil)
	}
	fn := e.x.eng.lookupMethod(recv.T, name)
	if fn == nil {
		sfail("no method %s on %v", name, recv.T)
	}
	// value receiver method called on pointer or vice versa
	rt := fn.Signature.Recv().Type()
	if _, isPtr := rt.Underlying().(*types.Pointer); !isPtr && recv.K == KRef {
		if _, rp := recv.T.Underlying().(*types.Pointer); rp {
			recv = e.x.deref(e.st, recv)
		}
	}
	return e.callFunc(fn, append([]Val{recv}, args...))
}

func (e *SpecEnv) callFunc(fn *ssa.Function, args []Val) Val {
	key := e.x.eng.fnKey(fn)
	con := e.x.eng.cs.Funcs[key]
	if con != nil {
		con.used = true
	}
	if (con != nil && con.Inline) || (con == nil && fn.Blocks != nil && len(fn.Blocks) <= 12) {
		return e.inlineSpec(fn, args)
	}
	if con != nil && !con.Pure {
		sfail("function %s is called in a spec but is neither pure nor inline", key)
	}
	return e.pureApply(key, con, fn.Signature, args, fn)
}

// pureApply: uninterpreted application shared by code and specs; contract ensures are instantiated on it
func (e *SpecEnv) pureApply(key string, con *Contract, sig *types.Signature, args []Val, fn *ssa.Function) Val {
	saved := e.x.curGuard
	e.x.curGuard = e.gd()
	defer func() { e.x.curGuard = saved }()
	pst := e.st
	if e.locals != nil {
		pst = e.locals
	}
	return e.x.pureApp(e.fr, e.st, key, con, sig, args, fn, false, pst)
}

func (e *SpecEnv) gd() string {
	if e.g == "" {
		return "true"
	}
	return e.g
}

// pst is the state that receives the proof obligations and the assumptions (the current state); st is the state the
// application reads the heap in (the pre-state inside old(), otherwise the same as pst)
func (x *Exec) pureApp(fr *Frame, st *State, key string, con *Contract, sig *types.Signature, args []Val, fn *ssa.Function, preProved bool, pst *State) Val {
	if pst == nil {
		pst = st
	}
	var sorts, terms []string
	for _, a := range args {
		if a.K == KOpaque || a.K == KFunc || a.K == KAddr {
			panic(oos("pure call %s with unmodelled argument (%s %s)", key, kindName(a.K), a.Why))
		}
		for i, c := range compsOf(a.T) {
			if a.K == KRef && kindOf(a.T) != KRef {
				break
			}
			_ = i
			sorts = append(sorts, c.Sort)
		}
		fl := flatten(a)
		terms = append(terms, fl...)
		if len(sorts) != len(terms) {
			// untyped / mismatched: fall back to Int sorts for the remaining components
			for len(sorts) < len(terms) {
				sorts = append(sorts, "Int")
			}
			sorts = sorts[:len(terms)]
		}
	}
	// heap dependence
	if con != nil && con.Opts["reads"] != "" && con.Opts["reads"] != "heap" {
		// declared read set: a list of types (struct type = all its fields, slice type = its elements)
		for _, ts := range splitTop(con.Opts["reads"], ',') {
			if g := strings.TrimSpace(ts); strings.HasPrefix(g, "gh:") {
				// a ghost array (the function is a view of ghost state)
				ss, ts2 := x.materialize(st, "G."+g[3:], mathInt)
				sorts = append(sorts, ss...)
				terms = append(terms, ts2...)
				continue
			}
			te, err := parser.ParseExpr(strings.TrimSpace(ts))
			if err != nil {
				panic(oos("bad reads option of %s: %v", key, err))
			}
			t := x.eng.resolveType(con.Pkg, te)
			if t == nil {
				panic(oos("cannot resolve type %s in reads option of %s", ts, key))
			}
			eff := newEffects()
			switch u := t.Underlying().(type) {
			case *types.Struct:
				// the type's own (non-struct) fields; embedded caches such as atomic.Value are not part of the value
				for i := 0; i < u.NumFields(); i++ {
					f := u.Field(i)
					if kindOf(f.Type()) != KStruct {
						eff.keys[fieldKey(t, sanitize(f.Name()))] = f.Type()
					}
				}
			case *types.Slice:
				eff.keys[elemKey(u.Elem())] = u.Elem()
			default:
				panic(oos("reads option of %s: unsupported type %s", key, ts))
			}
			// element stores last: updates of arrays allocated in this function that no argument mentions are irrelevant
			ks := sortedKeys(eff.keys)
			sort.SliceStable(ks, func(i, j int) bool { return !strings.HasPrefix(ks[i], "E.") && strings.HasPrefix(ks[j], "E.") })
			for _, k := range ks {
				x.matContext = strings.Join(terms, " ")
				ss, ts2 := x.materialize(st, k, eff.keys[k])
				x.matContext = ""
				sorts = append(sorts, ss...)
				terms = append(terms, ts2...)
			}
		}
		x.note("declared read set of " + key + " is assumed: " + con.Opts["reads"])
	} else if con == nil || con.Opts["heap-independent"] == "" {
		if fn != nil && fn.Blocks != nil && (con == nil || !con.Trusted) {
			rd := x.readsOf(fn, map[*ssa.Function]bool{})
			if rd.all {
				sorts = append(sorts, "Int")
				terms = append(terms, st.heapVersion(terms))
			} else {
				for _, k := range sortedKeys(rd.keys) {
					ss, ts := x.materialize(st, k, rd.keys[k])
					sorts = append(sorts, ss...)
					terms = append(terms, ts...)
				}
			}
		} else if con != nil && con.Opts["reads"] == "heap" {
			sorts = append(sorts, "Int")
			terms = append(terms, st.heapVersion(terms))
		} else {
			x.note("pure function without body treated as heap-independent: " + key)
		}
	}
	base := "F." + sanitize(key) + sigTag(sorts)
	mk := func(sfx string, t types.Type) Val {
		cs := comps(t)
		out := make([]string, len(cs))
		for i, c := range cs {
			fnm := base + sfx + c.Suffix
			x.decls.Fun(fnm, sorts, c.Sort)
			if len(terms) == 0 {
				out[i] = fnm
				x.decls.m[fnm] = fmt.Sprintf("(declare-const %s %s)", fnm, c.Sort)
			} else {
				out[i] = x.decls.Define("app."+sanitize(shortKey(key))+c.Suffix, c.Sort, "("+fnm+" "+strings.Join(terms, " ")+")")
			}
		}
		v := unflatten(t, out)
		// well-typedness of the application
		for i := 0; i < len(cs); i++ {
			if cs[i].Role == "arr" {
				pst.assume(sliceFact(out[i], out[i+1], out[i+2], out[i+3], ""))
				i += 3
				continue
			}
			if f := x.rangeFact(out[i], cs[i], ""); f != "true" {
				pst.assume(f)
			}
		}
		return v
	}
	var res Val
	switch sig.Results().Len() {
	case 0:
		res = Val{K: KTuple, T: types.NewTuple()}
	case 1:
		res = mk("", sig.Results().At(0).Type())
	default:
		res = Val{K: KTuple, T: sig.Results()}
		for i := 0; i < sig.Results().Len(); i++ {
			res.Fs = append(res.Fs, mk(fmt.Sprintf(".%d", i), sig.Results().At(i).Type()))
		}
	}
	if con != nil && (len(con.Ensures) > 0 || len(con.Pre) > 0) {
		// the application must be well-defined (requires proved here unless the caller already did), then its ensures hold
		gd := x.curGuard
		if gd == "" || preProved {
			gd = "true"
		}
		sig0 := base + "(" + strings.Join(terms, ",") + ")"
		if gd != "true" {
			sig0 += "|" + gd
		}
		if !pst.applied[sig0] && !pst.applied[base+"("+strings.Join(terms, ",")+")"] {
			pst.applied[sig0] = true
			names := x.bindArgs(sig, args)
			x.bindResults(names, sig, res)
			x.aliasRenamed(con, sig, names)
			x.lastPre, x.lastPreQ = nil, false
			env := &SpecEnv{x: x, fr: fr, st: st, old: st, names: names, pkg: con.Pkg, depth: 1, g: gd}
			if pst != st {
				env.locals = pst
			}
			savedG := x.curGuard
			x.curGuard = gd
			defer func() { x.curGuard = savedG }()
			i := 0
			for _, p := range con.Pre {
				if p.Let != "" {
					env.names[p.Let] = env.eval(p.C.Expr)
					continue
				}
				f := env.evalBool(p.C.Expr).formula()
				if !preProved && !x.noWD {
					goal := f
					if gd != "true" {
						goal = &F{Op: "imp", Kids: []*F{atom(gd), f}}
					}
					x.proveF(fr, pst, fmt.Sprintf("wd:%s.pre[%d]", shortKey(key), i), "well-defined", goal, nil)
				}
				x.assumeG(pst, gd, nnf(f, false))
				if x.inQBody > 0 {
					if f.hasQ() {
						x.lastPreQ = true
					} else {
						x.lastPre = append(x.lastPre, render(f))
					}
				}
				i++
			}
			var preAtoms []string
			if x.inQBody > 0 {
				preAtoms = x.lastPre
			}
			for _, en := range con.Ensures {
				if f, ok := env.evalCallerSide(en); ok {
					x.assumeG(pst, gd, nnf(f, false))
					if x.inQBody > 0 && !f.hasQ() {
						// inside a quantifier body the state is a frozen copy and the assumption above is lost with it: keep the
						// contract instance "requires ==> ensures" (valid for any arguments) as a fact for the queries that mention
						// this application
						x.addSideFact(res, sImp(sAnd(append([]string{gd}, preAtoms...)...), render(f)))
					}
				}
			}
		}
	}
	return res
}

// byteContent: the content term of a byte slice, or of a byte array value
func (e *SpecEnv) byteContent(n ast.Expr) (content string, v Val) {
	v = e.eval(n)
	switch v.K {
	case KSlice:
		return e.x.contentOf(e.st, v), v
	case KArr:
		fn := "arrcontent." + typeName(v.T)
		e.x.decls.Fun(fn, []string{"Val"}, "Val")
		e.x.decls.Fun(fn+".inv", []string{"Val"}, "Val")
		e.x.injective(fn)
		return "(" + fn + " " + v.S + ")", v
	}
	sfail("cmpBytes: %s is neither a byte slice nor a byte array", exprString(n))
	return "", v
}

// addSideFact keeps a globally valid contract instance, triggered by the first symbol of the application's result
func (x *Exec) addSideFact(res Val, fact string) {
	if x.lastPreQ {
		return // a quantified precondition cannot be put in front of the instance: no fact (sound, less complete)
	}
	terms := flatten(res)
	if len(terms) == 0 || fact == "true" || strings.Contains(fact, "?") {
		return // bound / probe variables: not a ground instance
	}
	trig := terms[0]
	if i := strings.IndexAny(trig, " )"); strings.HasPrefix(trig, "(") && i > 0 {
		trig = trig[1:i]
	}
	for _, f := range x.sideFacts[trig] {
		if f == fact {
			return
		}
	}
	if x.sideFacts == nil {
		x.sideFacts = map[string][]string{}
	}
	x.sideFacts[trig] = append(x.sideFacts[trig], fact)
}

// bodyHasPureCall: does the expression call anything but builtins (a cheap syntactic test)?
func (x *Exec) bodyHasPureCall(n ast.Expr) bool {
	found := false
	ast.Inspect(n, func(m ast.Node) bool {
		if c, ok := m.(*ast.CallExpr); ok {
			switch f := c.Fun.(type) {
			case *ast.Ident:
				if !specBuiltinNames[f.Name] {
					found = true
				}
			default:
				found = true
			}
		}
		return !found
	})
	return found
}

var specBuiltinNames = map[string]bool{"forall": true, "exists": true, "implies": true, "iff": true, "old": true, "len": true, "cap": true, "val": true, "has": true,
	"ite": true, "min": true, "max": true, "abs": true, "content": true, "strof": true, "fresh": true, "isNil": true, "unchanged": true, "gh": true, "pairkey": true,
	"frameElems": true, "frameMaps": true, "cmpBytes": true, "ref": true, "existing": true, "arrayOf": true, "offsetOf": true, "sameSlice": true, "sameArray": true, "held": true, "rheld": true, "allocated": true, "bytesEq": true, "typeIs": true, "forallKeys": true, "existsKeys": true,
	"int": true, "int64": true, "uint64": true, "uint32": true, "uint16": true, "uint8": true, "uint": true, "int32": true, "byte": true, "mathint": true}

// evalCallerSide evaluates a callee postcondition at a call site; clauses that talk about the callee's local variables
// mean nothing to callers and are skipped (fewer assumptions: sound)
func (e *SpecEnv) evalCallerSide(c Clause) (f *F, ok bool) {
	defer func() {
		if r := recover(); r != nil {
			if se, is := r.(specErr); is && strings.Contains(se.msg, "unknown identifier") {
				ok = false
				return
			}
			panic(r)
		}
	}()
	return e.evalBool(c.Expr).formula(), true
}

func shortKey(key string) string {
	if i := strings.LastIndex(key, "/"); i >= 0 {
		return key[i+1:]
	}
	return key
}

func sortedKeys(m map[string]types.Type) []string {
	var ks []string
	for k := range m {
		ks = append(ks, k)
	}
	sortStrings(ks)
	return ks
}

// materialize gives SMT array terms for a heap key (used as arguments of heap-dependent pure functions)
func (x *Exec) materialize(st *State, key string, t types.Type) (sorts, terms []string) {
	if strings.HasPrefix(key, "E.") {
		l := x.lazyFor(st, t)
		cs := comps(t)
		for k := range l.base {
			term := l.base[k]
			ok := true
			for _, u := range l.ups {
				if x.matContext != "" && strings.HasPrefix(u.arr, "ref!") && !strings.Contains(x.matContext, u.arr) {
					continue // a fresh array nobody passed to the function
				}
				if u.bulk || u.zero || u.havoc != nil || u.fromVal != "" {
					ok = false
					break
				}
				w := sSto(term, u.arr, sSto(sSel(term, u.arr), u.idx, u.v[k]))
				if u.guard != "" {
					term = sIte(u.guard, w, term)
				} else {
					term = w
				}
			}
			if !ok {
				// not expressible as a store chain: a version token keeps the function sound (no sharing across mutations)
				sorts = append(sorts, "Int")
				terms = append(terms, sInt(int64(1000000+st.hv)))
				continue
			}
			sorts = append(sorts, "(Array Int (Array Int "+cs[k].Sort+"))")
			terms = append(terms, term)
		}
		return
	}
	if strings.HasPrefix(key, "MD.") {
		mt := t.Underlying().(*types.Map)
		ks := mapKeySort(mt)
		sorts = append(sorts, "(Array Int (Array "+ks+" Bool))")
		terms = append(terms, x.mapDom(st, t).term())
		for _, c := range comps(mt.Elem()) {
			sorts = append(sorts, "(Array Int (Array "+ks+" "+c.Sort+"))")
			terms = append(terms, x.mapValArr(st, t, c).term())
		}
		return
	}
	for _, h := range x.harrs(st, key, t) {
		sorts = append(sorts, "(Array Int "+h.sort+")")
		terms = append(terms, h.term())
	}
	return
}

// inlineSpec evaluates a function body symbolically and merges the return paths into one value
func (e *SpecEnv) inlineSpec(fn *ssa.Function, args []Val) Val {
	if e.depth > 6 {
		sfail("spec inlining too deep at %s", fn.String())
	}
	if fn.Blocks == nil {
		sfail("cannot inline %s in a spec: no body loaded", fn.String())
	}
	x := e.x
	st := e.st.clone()
	base := len(st.pc)
	type outcome struct {
		cond string
		res  Val
	}
	var outs []outcome
	fr := &Frame{fn: fn, parent: e.fr, depth: 1, inSpec: true, names: map[string]Val{}, prefix: "spec/"}
	if e.fr != nil {
		fr.depth = e.fr.depth + 1
	}
	fr.con = x.eng.cs.Funcs[x.eng.fnKey(fn)]
	for i, p := range fn.Params {
		st.env[p] = args[i]
	}
	st.dbg = map[string]Val{}
	st.dbgAddr = map[string]Val{}
	st.defers = append(st.defers, nil)
	fr.pre = st
	rt := resultType(fn.Signature)
	savedObs := len(x.obs)
	savedPaths := x.paths
	var sideFacts []PCItem
	fr.ret = func(st2 *State, rs []Val) {
		var conds []string
		for _, it := range st2.pc[base:] {
			if it.QF != nil {
				continue
			}
			conds = append(conds, it.F)
		}
		var res Val
		switch len(rs) {
		case 0:
			res = Val{K: KTuple, T: rt}
		case 1:
			res = rs[0]
		default:
			res = Val{K: KTuple, T: rt, Fs: rs}
		}
		outs = append(outs, outcome{sAnd(conds...), res})
	}
	x.block(fr, st, fn.Blocks[0], nil)
	// obligations generated inside spec evaluation are dropped (the function is verified on its own if it has a contract)
	x.obs = x.obs[:savedObs]
	x.paths = savedPaths
	_ = sideFacts
	if len(outs) == 0 {
		sfail("function %s has no returning path (inlined in a spec)", fn.String())
	}
	// merge
	res := outs[len(outs)-1].res
	for i := len(outs) - 2; i >= 0; i-- {
		res = mergeVal(outs[i].cond, outs[i].res, res)
	}
	return res
}

func mergeVal(c string, a, b Val) Val {
	if a.K == KOpaque || b.K == KOpaque {
		return opaque(a.T, "merge of opaque")
	}
	if a.K != b.K {
		if a.K == KRef && b.K == KRef {
		} else {
			return opaque(a.T, "merge of different kinds")
		}
	}
	switch a.K {
	case KSlice:
		return Val{K: KSlice, T: a.T, Arr: sIte(c, a.Arr, b.Arr), Off: sIte(c, a.Off, b.Off), Len: sIte(c, a.Len, b.Len), Cap: sIte(c, a.Cap, b.Cap)}
	case KStruct, KTuple:
		r := Val{K: a.K, T: a.T}
		for i := range a.Fs {
			r.Fs = append(r.Fs, mergeVal(c, a.Fs[i], b.Fs[i]))
		}
		return r
	case KAddr, KFunc:
		return opaque(a.T, "merge of addresses")
	}
	r := a
	r.S = sIte(c, a.S, b.S)
	r.Q = nil
	return r
}

func (e *SpecEnv) specFunc(sf *SpecFunc, argExprs []ast.Expr) Val {
	if len(argExprs) != len(sf.Params) {
		sfail("spec function %s expects %d arguments", sf.Name, len(sf.Params))
	}
	var args []Val
	for i, a := range argExprs {
		v := e.eval(a)
		if t := e.x.eng.resolveType(sf.Pkg, sf.Params[i].Type); t != nil && (v.T == nil || isUntyped(v.T)) {
			v.T = t
		}
		args = append(args, v)
	}
	opaque := false
	if e.x.con != nil {
		for _, n := range strings.Split(e.x.con.Opts["opaque"], ",") {
			if strings.TrimSpace(n) == sf.Name {
				opaque = true
			}
		}
	}
	if sf.Rec && !opaque && sf.Body != nil {
		return e.recApply(sf, args)
	}
	if sf.Body == nil || sf.Rec || opaque {
		// uninterpreted (or recursive: uninterpreted + unfold hints)
		var sorts, terms []string
		for i, a := range args {
			t := e.x.eng.resolveType(sf.Pkg, sf.Params[i].Type)
			if t == nil {
				sfail("cannot resolve parameter type of spec function %s", sf.Name)
			}
			for _, c := range compsOf(t) {
				sorts = append(sorts, c.Sort)
			}
			terms = append(terms, flatten(a)...)
		}
		rt := e.x.eng.resolveType(sf.Pkg, sf.Result)
		if rt == nil {
			sfail("cannot resolve result type of spec function %s", sf.Name)
		}
		cs := compsOf(rt)
		if len(cs) != 1 {
			sfail("spec function %s: compound result types are not supported", sf.Name)
		}
		fnm := "S." + sanitize(sf.Pkg) + "." + sf.Name
		e.x.decls.Fun(fnm, sorts, cs[0].Sort)
		t := "(" + fnm + " " + strings.Join(terms, " ") + ")"
		if len(terms) == 0 {
			t = fnm
		}
		if rt == mathInt {
			return Val{K: KInt, T: types.Typ[types.UntypedInt], S: t}
		}
		return Val{K: cs[0].K, T: rt, S: t}
	}
	names := map[string]Val{}
	for i, p := range sf.Params {
		names[p.Name] = args[i]
	}
	ne := &SpecEnv{x: e.x, fr: e.fr, st: e.st, old: e.old, names: names, pkg: sf.Pkg, depth: e.depth + 1}
	if ne.depth > 12 {
		sfail("spec function expansion too deep at %s", sf.Name)
	}
	return ne.eval(sf.Body)
}

func isUntyped(t types.Type) bool {
	b, ok := t.(*types.Basic)
	return ok && b.Info()&types.IsUntyped != 0
}

func (e *SpecEnv) builtinSpec(name string, c *ast.CallExpr) (Val, bool) {
	arg := func(i int) Val { return e.eval(c.Args[i]) }
	switch name {
	case "implies":
		a := e.evalBool(c.Args[0])
		saved := e.g
		if a.Q == nil {
			e.g = sAnd(e.gd(), a.S)
		}
		b := e.evalBool(c.Args[1])
		e.g = saved
		if a.Q == nil && b.Q == nil {
			return boolVal(sImp(a.S, b.S)), true
		}
		return bval(&F{Op: "imp", Kids: []*F{a.formula(), b.formula()}}), true
	case "iff":
		a, b := e.evalBool(c.Args[0]), e.evalBool(c.Args[1])
		if a.Q == nil && b.Q == nil {
			return boolVal(sEq(a.S, b.S)), true
		}
		return bval(&F{Op: "iff", Kids: []*F{a.formula(), b.formula()}}), true
	case "forall", "exists":
		if len(c.Args) != 4 {
			sfail("%s(i, lo, hi, body) expects 4 arguments", name)
		}
		id, ok := c.Args[0].(*ast.Ident)
		if !ok {
			sfail("%s: first argument must be a variable name", name)
		}
		lo, hi := arg(1).S, arg(2).S
		bodyAST := c.Args[3]
		// freeze the environment for later instantiation
		frozen := *e
		frozen.st = e.st.snapshot()
		if e.old != nil {
			frozen.old = e.old
		}
		x := e.x
		body := func(t string) *F {
			// well-definedness of the body is checked once, below, for an arbitrary index; instantiations do not repeat it
			saved := x.noWD
			x.noWD = true
			x.inQBody++
			defer func() { x.noWD = saved; x.inQBody-- }()
			ne := frozen.with(map[string]Val{id.Name: intVal(t, types.Typ[types.Int])})
			return ne.evalBool(bodyAST).formula()
		}
		if !x.noWD && x.bodyHasPureCall(bodyAST) {
			c := x.decls.Fresh("wd."+id.Name, "Int")
			ne := e.with(map[string]Val{id.Name: intVal(c, types.Typ[types.Int])})
			ne.g = sAnd(e.gd(), sLe(lo, c), sLt(c, hi))
			// on a copy of the state: the obligations are emitted, the facts about the arbitrary index do not stay behind
			ne.st = e.st.clone()
			if e.locals != nil {
				ne.locals = e.locals.clone()
			}
			ne.evalBool(bodyAST)
		}
		return bval(&F{Op: name, Var: id.Name, Lo: lo, Hi: hi, Body: body}), true
	case "forallKeys", "existsKeys":
		// forallKeys(k, m, body): for every key k in the domain of map m
		if len(c.Args) != 3 {
			sfail("%s(k, m, body) expects 3 arguments", name)
		}
		id, ok := c.Args[0].(*ast.Ident)
		if !ok {
			sfail("%s: first argument must be a variable name", name)
		}
		m := arg(1)
		mt, ok := m.T.Underlying().(*types.Map)
		if !ok || m.K != KRef {
			sfail("%s: second argument must be a map", name)
		}
		ks := mapKeySort(mt)
		bodyAST := c.Args[2]
		frozen := *e
		frozen.st = e.st.snapshot()
		kt := mt.Key()
		kk := kindOf(kt)
		x := e.x
		fst := frozen.st
		guard := func(t string) string { return x.mapHas(fst, m, Val{K: kk, T: kt, S: t}) }
		body := func(t string) *F {
			x.inQBody++
			defer func() { x.inQBody-- }()
			ne := frozen.with(map[string]Val{id.Name: {K: kk, T: kt, S: t}})
			return ne.evalBool(bodyAST).formula()
		}
		op := "forall"
		if name == "existsKeys" {
			op = "exists"
		}
		return bval(&F{Op: op, Var: id.Name, Sort: ks, Guard: guard, Body: body}), true
	case "old":
		if e.old == nil {
			sfail("old() used where no pre-state exists")
		}
		ne := *e
		ne.st = e.old
		if ne.locals == nil {
			ne.locals = e.st
		}
		return ne.eval(c.Args[0]), true
	case "len":
		a := arg(0)
		switch a.K {
		case KSlice:
			return intVal(a.Len, types.Typ[types.Int]), true
		case KStr:
			return intVal(e.x.strlen(a.S), types.Typ[types.Int]), true
		case KRef:
			if _, ok := a.T.Underlying().(*types.Map); ok {
				return intVal(e.x.mapLen(e.st, a), types.Typ[types.Int]), true
			}
		case KArr:
			return intVal(sInt(a.T.Underlying().(*types.Array).Len()), types.Typ[types.Int]), true
		}
		sfail("len of %s", kindName(a.K))
	case "cap":
		a := arg(0)
		if a.K == KSlice {
			return intVal(a.Cap, types.Typ[types.Int]), true
		}
		sfail("cap of %s", kindName(a.K))
	case "val":
		a := arg(0)
		// a *big.Int, or the integer identity of one held in a ghost array (see ref())
		if a.K != KRef && !(a.K == KInt && (a.T == mathInt || isUntyped(a.T))) {
			sfail("val() of %s", kindName(a.K))
		}
		return Val{K: KInt, T: types.Typ[types.UntypedInt], S: e.x.bigval(e.st, a.S)}, true
	case "has":
		m, k := arg(0), arg(1)
		if m.K != KRef {
			sfail("has() on %s", kindName(m.K))
		}
		return boolVal(e.x.mapHas(e.st, m, k)), true
	case "res0", "res1", "res2", "res3":
		a := arg(0)
		i := int(name[3] - '0')
		if a.K != KTuple || i >= len(a.Fs) {
			sfail("%s() of a non-tuple", name)
		}
		return a.Fs[i], true
	case "ite":
		cnd, a, b := e.evalBool(c.Args[0]), arg(1), arg(2)
		return mergeVal(cnd.S, a, b), true
	case "min":
		a, b := arg(0), arg(1)
		return intVal(sMin(a.S, b.S), a.T), true
	case "max":
		a, b := arg(0), arg(1)
		return intVal(sMax(a.S, b.S), a.T), true
	case "abs":
		a := arg(0)
		return intVal(sIte(sLe("0", a.S), a.S, sSub("0", a.S)), a.T), true
	case "held":
		a := e.evalAddr(c.Args[0])
		return boolVal(e.st.heldW(lockKeyOf(a))), true
	case "rheld":
		a := e.evalAddr(c.Args[0])
		return boolVal(e.st.heldR(lockKeyOf(a))), true
	case "sameSlice":
		a, b := arg(0), arg(1)
		if a.K != KSlice || b.K != KSlice {
			sfail("sameSlice on non-slices")
		}
		return boolVal(sAnd(sEq(a.Arr, b.Arr), sEq(a.Off, b.Off), sEq(a.Len, b.Len))), true
	case "sameArray":
		a, b := arg(0), arg(1)
		return boolVal(sAnd(sEq(a.Arr, b.Arr), sEq(a.Off, b.Off))), true
	case "ref":
		// ref(p): the object identity of a pointer as an integer (to relate pointers with ghost arrays, which hold integers)
		a := arg(0)
		if a.K != KRef {
			sfail("ref() of a %s value", kindName(a.K))
		}
		return intVal(a.S, types.Typ[types.Int]), true
	case "arrayOf":
		a := arg(0)
		return intVal(a.Arr, types.Typ[types.Int]), true
	case "offsetOf":
		a := arg(0)
		return intVal(a.Off, types.Typ[types.Int]), true
	case "fresh":
		a := arg(0)
		if e.old == nil {
			sfail("fresh() without a pre-state")
		}
		t := a.S
		if a.K == KSlice {
			t = a.Arr
		}
		return boolVal(sLt(e.old.alloc, t)), true
	case "existing":
		// existing(x): the object exists in the current state (allocated no later than now); with fresh(x) in a postcondition:
		// allocated by the callee
		a := arg(0)
		t := a.S
		if a.K == KSlice {
			t = a.Arr
		}
		return boolVal(sLe(t, e.st.alloc)), true
	case "allocated":
		a := arg(0)
		t := a.S
		if a.K == KSlice {
			t = a.Arr
		}
		return boolVal(sLe(t, e.x.alloc0)), true
	case "isNil":
		a := arg(0)
		if a.K == KSlice {
			return boolVal(sEq(a.Arr, "0")), true
		}
		return boolVal(sEq(a.S, "0")), true
	case "unchanged":
		// unchanged(s): the slice header and every element are what they were in the pre-state
		if e.old == nil {
			sfail("unchanged() without a pre-state")
		}
		now := arg(0)
		oe := *e
		oe.st = e.old
		was := oe.eval(c.Args[0])
		if now.K != KSlice || was.K != KSlice {
			sfail("unchanged() expects a slice")
		}
		frozen, frozenOld := e.st.snapshot(), e.old
		x := e.x
		body := func(t string) *F {
			a, b := x.elemRead(frozen, now, t), x.elemRead(frozenOld, was, t)
			if x.probe != nil && strings.Contains(t, "?probe") {
				*x.probe = append(*x.probe, SeqRef{now.Arr, now.Off})
			}
			eq := x.valEq(a, b)
			if a.K == KSlice && b.K == KSlice {
				eq = sAnd(sEq(a.Arr, b.Arr), sEq(a.Off, b.Off), sEq(a.Len, b.Len))
			}
			if eq == "" {
				sfail("unchanged(): elements are not comparable")
			}
			return atom(eq)
		}
		return bval(&F{Op: "and", Kids: []*F{atom(sAnd(sEq(now.Arr, was.Arr), sEq(now.Off, was.Off), sEq(now.Len, was.Len))), {Op: "forall", Var: "u", Lo: "0", Hi: now.Len, Body: body}}}), true
	case "frameElems":
		// frameElems(T): no element of any []T backing array that existed at function entry differs from its value at entry
		// (only arrays allocated by this activation have been written).  Proved with skolem constants; when assumed right after a
		// loop-head havoc it becomes a render-time fact on the fresh base arrays.
		// frameElems(T, s): the same, except for the elements of slice s (evaluated in the pre-state: old(s) is meant)
		if e.old == nil || len(c.Args) < 1 || len(c.Args) > 2 {
			sfail("frameElems(T [, s]) needs a pre-state and a type argument")
		}
		et := e.x.eng.resolveType(e.pkg, c.Args[0])
		if et == nil {
			sfail("frameElems: unknown type %s", exprString(c.Args[0]))
		}
		x := e.x
		except := func(a, i string) string { return "false" }
		if len(c.Args) == 2 {
			oe := *e
			oe.st = e.old
			sl := oe.eval(c.Args[1])
			if sl.K != KSlice {
				sfail("frameElems: second argument must be a slice")
			}
			except = func(a, i string) string {
				return sAnd(sEq(a, sl.Arr), sLe(sl.Off, i), sLt(i, sAdd(sl.Off, sl.Len)))
			}
		}
		cur := x.lazyFor(e.st, et).clone()
		pre := x.lazyFor(e.old, et).clone()
		cur.d, pre.d = nil, nil // reads happen inside render-time pattern closures: no abbreviations (registry is locked there)
		alloc0 := x.alloc0
		eqAt := func(a, i string) string {
			now, was := cur.read(a, i), pre.read(a, i)
			var eqs []string
			for k := range now {
				eqs = append(eqs, sEq(now[k], was[k]))
			}
			return sOr(except(a, i), sAnd(eqs...))
		}
		inner := func(a string) *F {
			return &F{Op: "forall", Var: "fi", Guard: func(string) string { return "true" }, Body: func(i string) *F { return atom(eqAt(a, i)) }}
		}
		f := &F{Op: "forall", Var: "fa", Guard: func(a string) string { return sAnd(sLt("0", a), sLe(a, alloc0)) }, Body: inner}
		f.OnAssume = func(st *State, guard string) bool {
			if len(cur.ups) != 0 {
				return false
			}
			for k := range cur.base {
				kk := k
				x.decls.PatAdd("sel2:"+cur.base[kk], func(args []string) string {
					a, i := args[0], args[1]
					was := pre.read(a, i)
					return sImp(sAnd(guard, sLt("0", a), sLe(a, alloc0), sNot(except(a, i))), sEq(sSel(sSel(cur.base[kk], a), i), was[kk]))
				})
			}
			return true
		}
		return bval(f), true
	case "cmpBytes":
		// cmpBytes(a, b): what bytes.Compare returns for the contents of two byte slices / byte arrays
		ca, va := e.byteContent(c.Args[0])
		cb, vb := e.byteContent(c.Args[1])
		eq := sEq(ca, cb)
		if va.K == KArr && vb.K == KArr {
			eq = sEq(va.S, vb.S)
		} else if va.K == KSlice && vb.K == KSlice {
			eq = e.x.contentEq(e.st, va, vb)
		}
		return intVal(e.x.cmpContentTerm(e.st, ca, cb, eq), types.Typ[types.Int]), true
	case "frameMaps":
		// frameMaps(m): every map of m's type that existed at function entry, other than old(m), has its entry content (domain,
		// values, length).  Proved with a skolem reference; assumed after a loop-head havoc as render-time facts on the fresh bases.
		if e.old == nil || len(c.Args) != 1 {
			sfail("frameMaps(m) needs a pre-state and a map argument")
		}
		x := e.x
		oe := *e
		oe.st = e.old
		m := oe.eval(c.Args[0])
		mt, ok := m.T.Underlying().(*types.Map)
		if !ok {
			sfail("frameMaps: argument is not a map")
		}
		type pair struct{ cur, pre *HArr }
		var arrs []pair
		arrs = append(arrs, pair{x.mapDom(e.st, m.T), x.mapDom(e.old, m.T)}, pair{x.mapLenArr(e.st, m.T), x.mapLenArr(e.old, m.T)})
		for _, cc := range comps(mt.Elem()) {
			arrs = append(arrs, pair{x.mapValArr(e.st, m.T, cc), x.mapValArr(e.old, m.T, cc)})
		}
		// snapshots (update lists are append-only slices)
		for i := range arrs {
			c1, p1 := *arrs[i].cur, *arrs[i].pre
			c1.ups, p1.ups = c1.ups[:len(c1.ups):len(c1.ups)], p1.ups[:len(p1.ups):len(p1.ups)]
			arrs[i] = pair{&c1, &p1}
		}
		alloc0 := x.alloc0
		f := &F{Op: "forall", Var: "fm", Guard: func(r string) string { return sAnd(sLe(r, alloc0), sNot(sEq(r, m.S))) }, Body: func(r string) *F {
			var eqs []string
			for _, a := range arrs {
				eqs = append(eqs, sEq(a.cur.read(r), a.pre.read(r)))
			}
			return atom(sAnd(eqs...))
		}}
		f.OnAssume = func(st *State, guard string) bool {
			for _, a := range arrs {
				aa := a
				// keyed on the base array: reads of the current content at r go through the update list down to (select base r)
				x.decls.PatAdd("sel1:"+aa.cur.base, func(args []string) string {
					r := args[0]
					return sImp(sAnd(guard, sLe(r, alloc0), sNot(sEq(r, m.S))), sEq(aa.cur.read(r), aa.pre.read(r)))
				})
			}
			return true
		}
		return bval(f), true
	case "gh":
		// gh("name", key): ghost array G.name (mathematical integers) at an integer key
		lit, ok := c.Args[0].(*ast.BasicLit)
		if !ok || len(c.Args) != 2 {
			sfail("gh(\"name\", key) expects a string literal and a key")
		}
		nm, _ := strconv.Unquote(lit.Value)
		k := arg(1)
		return e.x.readComps(e.st, "G."+nm, mathInt, k.S), true
	case "pairkey":
		// pairkey(a, b): an injective pairing of two scalar values into an integer key
		a, b := arg(0), arg(1)
		sa, sb := sortOfKind(a.K), sortOfKind(b.K)
		fn := "pairkey." + sanitize(sa) + "." + sanitize(sb)
		e.x.decls.Fun(fn, []string{sa, sb}, "Int")
		e.x.decls.Fun(fn+".fst", []string{"Int"}, sa)
		e.x.decls.Fun(fn+".snd", []string{"Int"}, sb)
		e.x.decls.Pat("app:"+fn, func(args []string) string {
			t := "(" + fn + " " + args[0] + " " + args[1] + ")"
			return sAnd(sEq("("+fn+".fst "+t+")", args[0]), sEq("("+fn+".snd "+t+")", args[1]))
		})
		return Val{K: KInt, T: types.Typ[types.UntypedInt], S: "(" + fn + " " + a.S + " " + b.S + ")"}, true
	case "strof":
		// the string a byte content converts to (map keys built with string(bytes))
		a := arg(0)
		if a.K != KArr {
			sfail("strof() expects a content value")
		}
		e.x.decls.Fun("strof", []string{"Val"}, "Str")
		e.x.decls.Fun("strof.inv", []string{"Str"}, "Val")
		e.x.injective("strof")
		return Val{K: KStr, T: types.Typ[types.String], S: "(strof " + a.S + ")"}, true
	case "bytesEq":
		a, b := arg(0), arg(1)
		if a.K != KSlice || b.K != KSlice {
			sfail("bytesEq on non-slices")
		}
		return boolVal(e.x.contentEq(e.st, a, b)), true
	case "content":
		a := arg(0)
		if a.K == KArr {
			// content of an array value (e.g. a SignData): the same key its full slice would have
			fn := "arrcontent." + typeName(a.T)
			e.x.decls.Fun(fn, []string{"Val"}, "Val")
			e.x.decls.Fun(fn+".inv", []string{"Val"}, "Val")
			t := "(" + fn + " " + a.S + ")"
			e.x.injective(fn)
			return Val{K: KArr, T: a.T, S: t}, true
		}
		if a.K != KSlice {
			sfail("content() of %s", kindName(a.K))
		}
		return Val{K: KArr, T: types.NewArray(types.Typ[types.Uint8], 0), S: e.x.contentOf(e.st, a)}, true
	case "typeIs":
		// typeIs(x, "pkg.T") : dynamic type test on interface values
		a := arg(0)
		var s string
		if lit, ok := c.Args[1].(*ast.BasicLit); ok {
			s, _ = strconv.Unquote(lit.Value)
		} else if at := e.x.eng.resolveType(e.pkg, c.Args[1]); at != nil {
			s = typeName(at)
		} else {
			sfail("typeIs: second argument must be a type or a string literal")
		}
		id := e.x.tagID("box." + sanitize(s))
		e.x.decls.Fun("iface.tag", []string{"Int"}, "Int")
		return boolVal(sAnd(sNot(sEq(a.S, "0")), sEq("(iface.tag "+a.S+")", sInt(int64(id))))), true
	}
	return Val{}, false
}

// evalAddr evaluates an expression denoting a lock (a struct-valued field): the result is the sub-object reference
func (e *SpecEnv) evalAddr(n ast.Expr) Val {
	if p, ok := n.(*ast.ParenExpr); ok {
		return e.evalAddr(p.X)
	}
	if u, ok := n.(*ast.UnaryExpr); ok && u.Op == token.AND {
		return e.evalAddr(u.X)
	}
	if g, isG := e.globalStructRef(n); isG {
		return g
	}
	sel, ok := n.(*ast.SelectorExpr)
	if !ok {
		return e.eval(n)
	}
	base := e.eval(sel.X)
	if base.K != KRef {
		sfail("lock expression %s: base is not a pointer", exprString(n))
	}
	pt, ok := base.T.Underlying().(*types.Pointer)
	if !ok {
		sfail("lock expression %s: base is not a pointer type", exprString(n))
	}
	stt, ok := pt.Elem().Underlying().(*types.Struct)
	if !ok {
		sfail("lock expression %s: not a struct", exprString(n))
	}
	for i := 0; i < stt.NumFields(); i++ {
		if stt.Field(i).Name() == sel.Sel.Name {
			a := e.x.fieldAddr(e.st, base.S, pt.Elem(), i)
			if a.K == KRef {
				return a
			}
			return e.x.loadAddr(e.st, a.A)
		}
	}
	sfail("lock expression %s: no such field", exprString(n))
	return Val{}
}

// globalStructRef: a package-level struct variable (a mutex, a memo) named in a spec: its fixed object reference
func (e *SpecEnv) globalStructRef(n ast.Expr) (Val, bool) {
	id, isId := n.(*ast.Ident)
	if !isId {
		return Val{}, false
	}
	if _, bound := e.names[id.Name]; bound {
		return Val{}, false
	}
	if _, local := e.st.dbg[id.Name]; local {
		return Val{}, false
	}
	tp := e.x.eng.typesPkg(e.pkg)
	if tp == nil {
		return Val{}, false
	}
	v, isVar := tp.Scope().Lookup(id.Name).(*types.Var)
	if !isVar || kindOf(v.Type()) != KStruct {
		return Val{}, false
	}
	ref := e.x.decls.Const("gref."+sanitize(e.pkg)+"."+id.Name, "Int")
	e.x.decls.Axiom(ref, sLt(ref, "0"))
	return refVal(ref, types.NewPointer(v.Type())), true
}

// lemmaInstance: (requires ==> ensures) of a lemma with its parameters bound to the arguments; valid because the lemma is proved on its own
func (e *SpecEnv) lemmaInstance(lm *Contract, argExprs []ast.Expr) Val {
	if len(argExprs) != len(lm.Params) {
		sfail("lemma %s expects %d arguments", lm.Key, len(lm.Params))
	}
	names := map[string]Val{}
	for i, p := range lm.Params {
		names[p.Name] = e.eval(argExprs[i])
	}
	ne := &SpecEnv{x: e.x, fr: e.fr, st: e.st, old: e.old, names: names, pkg: lm.Pkg, depth: e.depth + 1}
	saved := e.x.noWD
	e.x.noWD = true
	defer func() { e.x.noWD = saved }()
	var pre, post []*F
	for _, p := range lm.Pre {
		if p.Let != "" {
			ne.names[p.Let] = ne.eval(p.C.Expr)
			continue
		}
		pre = append(pre, ne.evalBool(p.C.Expr).formula())
	}
	for _, en := range lm.Ensures {
		post = append(post, ne.evalBool(en.Expr).formula())
	}
	lm.used = true
	e.x.note("uses lemma " + lm.Key + " (proved separately)")
	return bval(&F{Op: "imp", Kids: []*F{{Op: "and", Kids: pre}, {Op: "and", Kids: post}}})
}

// recApply: a recursive spec function is an uninterpreted function (of its arguments and of the heap arrays its body reads)
// together with a one-step unfolding of every application that occurs ("fuel 1"); termination of the definition is assumed
func (e *SpecEnv) recApply(sf *SpecFunc, args []Val) Val {
	x := e.x
	if x.unfoldDepth == nil {
		x.unfoldDepth = map[string]int{}
	}
	names := map[string]Val{}
	for i, p := range sf.Params {
		names[p.Name] = args[i]
	}
	evalBody := func() Val {
		ne := &SpecEnv{x: x, fr: e.fr, st: e.st, old: e.old, names: names, pkg: sf.Pkg, depth: e.depth + 1, locals: e.locals}
		x.unfoldDepth[sf.Name]++
		defer func() { x.unfoldDepth[sf.Name]-- }()
		return ne.eval(sf.Body)
	}
	if sf.probing {
		rt := x.eng.resolveType(sf.Pkg, sf.Result)
		if rt == mathInt {
			return Val{K: KInt, T: types.Typ[types.UntypedInt], S: "0"}
		}
		return zeroVal(rt)
	}
	// heap keys read by the body (discovered once, on the first application)
	if !sf.keysDone {
		sf.probing = true
		var log []readRec
		saved := x.readLog
		x.readLog = &log
		func() {
			defer func() { x.readLog = saved }()
			evalBody()
		}()
		seen := map[string]bool{}
		for _, r := range log {
			if !seen[r.key] {
				seen[r.key] = true
				sf.readKeys = append(sf.readKeys, r)
			}
		}
		sf.keysDone = true
		sf.probing = false
	}
	var sorts, terms []string
	for i, a := range args {
		t := x.eng.resolveType(sf.Pkg, sf.Params[i].Type)
		if t == nil {
			sfail("cannot resolve parameter type of spec function %s", sf.Name)
		}
		for _, c := range compsOf(t) {
			sorts = append(sorts, c.Sort)
		}
		terms = append(terms, flatten(a)...)
	}
	for _, r := range sf.readKeys {
		x.matContext = strings.Join(terms, " ")
		ss, ts := x.materialize(e.st, r.key, r.t)
		x.matContext = ""
		sorts = append(sorts, ss...)
		terms = append(terms, ts...)
	}
	rt := x.eng.resolveType(sf.Pkg, sf.Result)
	if rt == nil {
		sfail("cannot resolve result type of spec function %s", sf.Name)
	}
	cs := compsOf(rt)
	if len(cs) != 1 {
		sfail("spec function %s: compound result types are not supported", sf.Name)
	}
	fnm := "S." + sanitize(sf.Pkg) + "." + sf.Name + sigTag(sorts)
	x.decls.Fun(fnm, sorts, cs[0].Sort)
	t := x.decls.Define("rec."+sf.Name, cs[0].Sort, "("+fnm+" "+strings.Join(terms, " ")+")")
	res := Val{K: cs[0].K, T: rt, S: t}
	if rt == mathInt {
		res = Val{K: KInt, T: types.Typ[types.UntypedInt], S: t}
	}
	fuel := 1
	if x.con != nil && x.con.Opts["fuel"] != "" {
		fmt.Sscan(x.con.Opts["fuel"], &fuel)
	}
	// inside old() the application reads the pre-state, but the unfolding is a fact of the current path
	pst := e.st
	if e.locals != nil {
		pst = e.locals
	}
	if x.unfoldDepth[sf.Name] < fuel && !pst.applied["unfold:"+t] && !strings.Contains(t, "?") {
		pst.applied["unfold:"+t] = true
		b := evalBody()
		pst.assume(sEq(t, b.S))
	}
	return res
}

// sigTag distinguishes uninterpreted functions of the same name that are applied with different argument sorts (the heap
// arrays a function depends on may or may not be expressible as terms)
func sigTag(sorts []string) string {
	h := uint32(2166136261)
	for _, s := range sorts {
		for i := 0; i < len(s); i++ {
			h = (h ^ uint32(s[i])) * 16777619
		}
		h = (h ^ '|') * 16777619
	}
	return fmt.Sprintf(".s%x", h&0xffff)
}

func isParamName(fn *ssa.Function, name string) bool {
	for _, p := range fn.Params {
		if p.Name() == name {
			return true
		}
	}
	return false
}
