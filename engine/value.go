package main

// Symbolic values, type flattening, heap model (per-field arrays, lazy element stores), path state.

import (
	"fmt"
	"go/types"
	"strings"

	"golang.org/x/tools/go/ssa"
)

type Kind uint8

const (
	KOpaque Kind = iota
	KBool
	KInt
	KRef   // pointers to objects / cells, maps, chans, interfaces, funcs-as-data: an Int, nil == 0
	KStr   // sort Str
	KArr   // fixed-size array value: sort Val
	KFloat // sort Float64
	KSlice
	KStruct
	KTuple
	KAddr // address of a field / element (not storable)
	KFunc // closure or function value known statically
)

type AddrKind uint8

const (
	AField  AddrKind = iota // field (path) of heap object Base
	AElem                   // element Idx of backing array Base
	AGlobal                 // package-level variable
)

type Addr struct {
	Kind AddrKind
	Base string     // object ref / backing array id
	Idx  string     // absolute element index (AElem)
	Key  string     // heap key prefix: H.<type>.<field>[.<sub>] | E.<elemtype> | G.<pkg>.<name>
	T    types.Type // type of the addressed location
	// address of a field inside a struct-typed slice element: component range [CompLo, CompLo+CompN) of element type ElemT
	ElemT  types.Type
	CompLo int
	CompN  int
	Final  string // AGlobal: the decimal value of an effectively constant package-level integer variable
}

type Val struct {
	K    Kind
	T    types.Type
	S    string
	Arr  string
	Off  string
	Len  string
	Cap  string
	Fs   []Val
	A    *Addr
	Fn   *ssa.Function
	Bind []Val
	Why  string
	Q    *F     // structured formula for boolean spec values containing quantifiers
	Fl   *FExpr // float island
}

func opaque(t types.Type, why string) Val { return Val{K: KOpaque, T: t, Why: why} }
func boolVal(s string) Val                { return Val{K: KBool, T: types.Typ[types.Bool], S: s} }
func intVal(s string, t types.Type) Val   { return Val{K: KInt, T: t, S: s} }
func refVal(s string, t types.Type) Val   { return Val{K: KRef, T: t, S: s} }

const float64Sort = "(_ FloatingPoint 11 53)"

// isBigInt: the struct type math/big.Int (held by value).  It is modelled as the mathematical integer it denotes: one component,
// and a cell of this type is the ghost array G.bigval that the assumed math/big contracts speak about (val(p)), so that
// *p, a copy `v := *p`, a big.Int boxed in an interface and `&v` all carry the same number.
func isBigInt(t types.Type) bool {
	n, ok := t.(*types.Named)
	return ok && n.Obj() != nil && n.Obj().Pkg() != nil && n.Obj().Pkg().Path() == "math/big" && n.Obj().Name() == "Int"
}

func kindOf(t types.Type) Kind {
	if isBigInt(t) {
		return KInt
	}
	switch u := t.Underlying().(type) {
	case *types.Basic:
		info := u.Info()
		switch {
		case info&types.IsBoolean != 0:
			return KBool
		case info&types.IsInteger != 0:
			return KInt
		case info&types.IsFloat != 0:
			return KFloat
		case info&types.IsString != 0:
			return KStr
		case u.Kind() == types.UnsafePointer, u.Kind() == types.UntypedNil:
			return KRef
		}
		return KOpaque
	case *types.Pointer, *types.Map, *types.Chan, *types.Signature, *types.Interface:
		return KRef
	case *types.Slice:
		return KSlice
	case *types.Struct:
		return KStruct
	case *types.Array:
		return KArr
	case *types.Tuple:
		return KTuple
	}
	return KOpaque
}

func sortOfKind(k Kind) string {
	switch k {
	case KBool:
		return "Bool"
	case KInt, KRef:
		return "Int"
	case KStr:
		return "Str"
	case KArr:
		return "Val"
	case KFloat:
		return float64Sort
	}
	return "Int"
}

func qualifier(p *types.Package) string { return p.Name() }

func typeName(t types.Type) string {
	return sanitize(types.TypeString(t, qualifier))
}

// Comp is one scalar component of a flattened Go value.
type Comp struct {
	Suffix string
	Sort   string
	T      types.Type // leaf Go type
	K      Kind
	Role   string // "", "arr", "off", "len", "cap"
}

var compsCache = map[types.Type][]Comp{}

func comps(t types.Type) []Comp {
	if c, ok := compsCache[t]; ok {
		return c
	}
	var out []Comp
	switch k := kindOf(t); k {
	case KSlice:
		for _, r := range []string{"arr", "off", "len", "cap"} {
			out = append(out, Comp{Suffix: "$" + r, Sort: "Int", T: t, K: KSlice, Role: r})
		}
	case KStruct:
		st := t.Underlying().(*types.Struct)
		for i := 0; i < st.NumFields(); i++ {
			f := st.Field(i)
			for _, c := range comps(f.Type()) {
				c.Suffix = "." + sanitize(f.Name()) + c.Suffix
				out = append(out, c)
			}
		}
	case KTuple:
		tp := t.(*types.Tuple)
		for i := 0; i < tp.Len(); i++ {
			for _, c := range comps(tp.At(i).Type()) {
				c.Suffix = fmt.Sprintf(".%d", i) + c.Suffix
				out = append(out, c)
			}
		}
	case KOpaque:
		out = []Comp{{Sort: "Int", T: t, K: KRef}}
	default:
		out = []Comp{{Sort: sortOfKind(k), T: t, K: k}}
	}
	compsCache[t] = out
	return out
}

func flatten(v Val) []string {
	switch v.K {
	case KSlice:
		return []string{v.Arr, v.Off, v.Len, v.Cap}
	case KStruct, KTuple:
		var out []string
		for _, f := range v.Fs {
			out = append(out, flatten(f)...)
		}
		return out
	case KAddr, KFunc, KOpaque:
		panic(oos("cannot store or pass value of kind %d (%s) type %v", v.K, v.Why, v.T))
	}
	return []string{v.S}
}

func unflatten(t types.Type, terms []string) Val {
	v, rest := unflat(t, terms)
	if len(rest) != 0 {
		panic("unflatten: leftover terms")
	}
	return v
}

func unflat(t types.Type, terms []string) (Val, []string) {
	switch k := kindOf(t); k {
	case KSlice:
		return Val{K: KSlice, T: t, Arr: terms[0], Off: terms[1], Len: terms[2], Cap: terms[3]}, terms[4:]
	case KStruct:
		st := t.Underlying().(*types.Struct)
		v := Val{K: KStruct, T: t}
		for i := 0; i < st.NumFields(); i++ {
			var f Val
			f, terms = unflat(st.Field(i).Type(), terms)
			v.Fs = append(v.Fs, f)
		}
		return v, terms
	case KTuple:
		tp := t.(*types.Tuple)
		v := Val{K: KTuple, T: t}
		for i := 0; i < tp.Len(); i++ {
			var f Val
			f, terms = unflat(tp.At(i).Type(), terms)
			v.Fs = append(v.Fs, f)
		}
		return v, terms
	case KOpaque:
		return Val{K: KRef, T: t, S: terms[0]}, terms[1:]
	default:
		return Val{K: k, T: t, S: terms[0]}, terms[1:]
	}
}

// intRange returns the inclusive range of an integer type (64-bit platform)
func intRange(t types.Type) (lo, hi string, ok bool) {
	b, isB := t.Underlying().(*types.Basic)
	if !isB {
		return "", "", false
	}
	switch b.Kind() {
	case types.Int8:
		return "(- 128)", "127", true
	case types.Int16:
		return "(- 32768)", "32767", true
	case types.Int32:
		return "(- 2147483648)", "2147483647", true
	case types.Int, types.Int64:
		return "(- 9223372036854775808)", "9223372036854775807", true
	case types.Uint8:
		return "0", "255", true
	case types.Uint16:
		return "0", "65535", true
	case types.Uint32:
		return "0", "4294967295", true
	case types.Uint, types.Uint64, types.Uintptr:
		return "0", "18446744073709551615", true
	}
	return "", "", false
}

func intBits(t types.Type) (bits int, signed bool) {
	b, _ := t.Underlying().(*types.Basic)
	if b == nil {
		return 64, true
	}
	switch b.Kind() {
	case types.Int8:
		return 8, true
	case types.Int16:
		return 16, true
	case types.Int32:
		return 32, true
	case types.Int, types.Int64, types.UntypedInt, types.UntypedRune:
		return 64, true
	case types.Uint8:
		return 8, false
	case types.Uint16:
		return 16, false
	case types.Uint32:
		return 32, false
	}
	return 64, false
}

// zero value of a type
func zeroVal(t types.Type) Val {
	cs := comps(t)
	ts := make([]string, len(cs))
	for i, c := range cs {
		switch c.Sort {
		case "Bool":
			ts[i] = "false"
		case "Int":
			ts[i] = "0"
		case "Str":
			ts[i] = "str.empty"
		case "Val":
			ts[i] = "zero." + typeName(c.T)
		case float64Sort:
			ts[i] = "(_ +zero 11 53)"
		}
	}
	return unflatten(t, ts)
}

// ---------- lazy element stores ----------

type Upd struct {
	guard  string
	arr    string
	idx    string
	v      []string
	bulk   bool
	lo, n  string
	src    *Lazy
	srcArr string
	srcOff string
	zero   bool // whole array arr holds zero values
	// generic "region havoc": elements of arr in [lo, lo+n) take values from fresh two-level arrays
	havoc []string
	// elements [0, n) of arr are the elements of the array value fromVal (slicing an array-valued location)
	fromVal string
	fromFn  string
}

type Lazy struct {
	key   string
	et    types.Type
	base  []string // per comp: term of sort (Array Int (Array Int S))
	ups   []Upd
	d     *Decls   // for abbreviating large intermediate terms
	sorts []string // per comp sort
}

func (l *Lazy) clone() *Lazy {
	return &Lazy{key: l.key, et: l.et, base: l.base, ups: l.ups[:len(l.ups):len(l.ups)], d: l.d, sorts: l.sorts}
}

// abbr names a large intermediate term (define-fun) so that nested reads do not replicate it
func (l *Lazy) abbr(k int, t string) string {
	if l.d == nil || len(t) < 160 || k >= len(l.sorts) {
		return t
	}
	return l.d.Define("rd", l.sorts[k], t)
}

func (l *Lazy) zeroTerms() []string { return flatten(zeroVal(l.et)) }

func (l *Lazy) read(arr, idx string) []string { return l.readL(arr, idx, nil) }

// readL resolves a read through the update list; reads of the *sources* of bulk copies are logged (they are index terms of
// the source sequence, needed to instantiate quantified facts about it)
func (l *Lazy) readL(arr, idx string, log *[]IdxT) []string {
	n := len(l.base)
	r := make([]string, n)
	for k := 0; k < n; k++ {
		r[k] = sSel(sSel(l.base[k], arr), idx)
	}
	for _, u := range l.ups {
		var hit string
		var v []string
		switch {
		case u.zero:
			hit, v = sEq(arr, u.arr), l.zeroTerms()
		case u.fromVal != "":
			hit = sAnd(sEq(arr, u.arr), sLe("0", idx), sLt(idx, u.n))
			v = []string{"(" + u.fromFn + " " + u.fromVal + " " + idx + ")"}
		case u.havoc != nil:
			hit = sAnd(sEq(arr, u.arr), sLe(u.lo, idx), sLt(idx, sAdd(u.lo, u.n)))
			v = make([]string, n)
			for k := 0; k < n; k++ {
				v[k] = sSel(sSel(u.havoc[k], arr), idx)
			}
		case u.bulk:
			hit = sAnd(sEq(arr, u.arr), sLe(u.lo, idx), sLt(idx, sAdd(u.lo, u.n)))
			si := sAdd(u.srcOff, sSub(idx, u.lo))
			if l.d != nil && len(si) > 160 {
				si = l.d.Define("ix", "Int", si)
			}
			if log != nil {
				*log = append(*log, IdxT{si, u.srcArr})
			}
			v = u.src.readL(u.srcArr, si, log)
			for k := range v {
				v[k] = l.abbr(k, v[k])
			}
		default:
			hit, v = sAnd(sEq(arr, u.arr), sEq(idx, u.idx)), u.v
		}
		if u.guard != "" {
			hit = sAnd(u.guard, hit)
		}
		if hit == "false" {
			continue
		}
		if l.d != nil && len(hit) > 200 {
			hit = l.d.Define("hit", "Bool", hit)
		}
		for k := 0; k < n; k++ {
			r[k] = l.abbr(k, sIte(hit, v[k], r[k]))
		}
	}
	return r
}

// HArr is a one-level heap array Ref -> S kept as base symbol + ordered point updates, so that every read is an
// ite-chain over selects of *base symbols* (whose well-typedness facts are global axioms).
type HUpd struct{ ref, v, guard string }

type HArr struct {
	key  string
	sort string
	base string
	ups  []HUpd
}

func (h *HArr) clone() *HArr {
	return &HArr{key: h.key, sort: h.sort, base: h.base, ups: h.ups[:len(h.ups):len(h.ups)]}
}

func (h *HArr) read(ref string) string {
	r := sSel(h.base, ref)
	for _, u := range h.ups {
		hit := sEq(ref, u.ref)
		if u.guard != "" {
			hit = sAnd(u.guard, hit)
		}
		if hit == "false" {
			continue
		}
		if hit == "true" {
			r = u.v
			continue
		}
		r = sIte(hit, u.v, r)
	}
	return r
}

func (h *HArr) write(ref, v string) { h.ups = append(h.ups, HUpd{ref: ref, v: v}) }

// term materialises the array as an SMT term (store chain)
func (h *HArr) term() string {
	t := h.base
	for _, u := range h.ups {
		if u.guard != "" {
			t = sIte(u.guard, sSto(t, u.ref, u.v), t)
		} else {
			t = sSto(t, u.ref, u.v)
		}
	}
	return t
}

// ---------- path state ----------

// PC item: either a plain formula or a quantified assumption that is instantiated at emission time.
type PCItem struct {
	F  string
	QF *F   // positive universally quantified formula (NNF), instantiated at emission time
	Br bool // a branch condition of the path (not an assumption taken from a contract, an invariant or a fact)
}

type Deferred struct {
	call *ssa.CallCommon
	args []Val
	fnv  Val
	pos  ssa.Instruction
}

type State struct {
	env        map[ssa.Value]Val
	heap       map[string]*HArr // heap key (with comp suffix) -> one-level array (base + point updates)
	lazy       map[string]*Lazy
	epoch      int
	hv         int                                  // heap version counter (bumped on every mutation)
	hvF        int                                  // version counter of writes to objects allocated in this activation that have not escaped into the heap
	escaped    bool                                 // a reference to such an object has been stored somewhere
	keepFn     func(key string) (int, string, bool) // keys spared by an earlier 'modifies allbut' havoc: their epoch and watermark
	pc         []PCItem
	held       map[string]string // lock address key -> Bool term ("true","false", symbolic); "R:" prefix for read-held
	defers     [][]Deferred
	alloc      string
	epochAlloc string // allocation watermark at the start of the current heap epoch: bound for refs stored in lazily created base arrays
	ghost      map[string]Val
	keys       []KeyT               // map key terms seen on this path (instantiation candidates for quantifiers over map domains)
	idx        []IdxT               // index terms seen on this path, with the sequence they index
	visited    map[ssa.Value]string // range-over-map iterator -> visited set term
	visitedKey string
	dbg        map[string]Val  // source-level names -> current values (from DebugRef / loop phis)
	dbgAddr    map[string]Val  // names of variables that live in memory -> their address
	trace      []string        // branch decisions taken on this path (source line + outcome)
	qfSeen     map[string]bool // rendered quantified assumptions already in the path condition
	applied    map[string]bool // pure applications whose contract instance was already assumed on this path
	depth      int
	// objects allocated by this activation, and those of them whose reference has been handed to a callee or stored somewhere:
	// a pointer that comes back from a callee cannot be one of the others
	freshList []string
	escRefs   map[string]bool
}

func (st *State) clone() *State {
	n := &State{
		env: make(map[ssa.Value]Val, len(st.env)), heap: make(map[string]*HArr, len(st.heap)), lazy: make(map[string]*Lazy, len(st.lazy)),
		epoch: st.epoch, hv: st.hv, hvF: st.hvF, escaped: st.escaped, keepFn: st.keepFn, freshList: st.freshList[:len(st.freshList):len(st.freshList)], escRefs: copyBoolMap(st.escRefs), epochAlloc: st.epochAlloc, pc: st.pc[:len(st.pc):len(st.pc)], held: make(map[string]string, len(st.held)), alloc: st.alloc,
		ghost: make(map[string]Val, len(st.ghost)), idx: st.idx[:len(st.idx):len(st.idx)], keys: st.keys[:len(st.keys):len(st.keys)],
		visited: make(map[ssa.Value]string, len(st.visited)), depth: st.depth, visitedKey: st.visitedKey,
		dbg: make(map[string]Val, len(st.dbg)), dbgAddr: make(map[string]Val, len(st.dbgAddr)), applied: make(map[string]bool, len(st.applied)),
	}
	for k, v := range st.dbg {
		n.dbg[k] = v
	}
	for k, v := range st.dbgAddr {
		n.dbgAddr[k] = v
	}
	for k, v := range st.applied {
		n.applied[k] = v
	}
	n.trace = st.trace[:len(st.trace):len(st.trace)]
	n.qfSeen = make(map[string]bool, len(st.qfSeen))
	for k, v := range st.qfSeen {
		n.qfSeen[k] = v
	}
	for k, v := range st.env {
		n.env[k] = v
	}
	for k, v := range st.heap {
		n.heap[k] = v.clone()
	}
	for k, v := range st.lazy {
		n.lazy[k] = v.clone()
	}
	for k, v := range st.held {
		n.held[k] = v
	}
	for k, v := range st.ghost {
		n.ghost[k] = v
	}
	for k, v := range st.visited {
		n.visited[k] = v
	}
	n.defers = make([][]Deferred, len(st.defers))
	for i, d := range st.defers {
		n.defers[i] = d[:len(d):len(d)]
	}
	return n
}

// snapshot is a clone used only for reading (old-state, quantifier closures)
func (st *State) snapshot() *State { return st.clone() }

func (st *State) assume(f string) {
	if f == "true" || f == "" {
		return
	}
	st.pc = append(st.pc, PCItem{F: f})
}

// KeyT is a map key term with its sort
type KeyT struct{ T, Sort string }

func (st *State) addKey(t, srt string) {
	if t == "" || len(t) > 1500 || strings.Contains(t, "?") {
		return
	}
	for _, k := range st.keys {
		if k.T == t {
			return
		}
	}
	st.keys = append(st.keys, KeyT{t, srt})
}

// IdxT is an index term together with the backing array (sequence) it was used to index ("" = unknown)
type IdxT struct{ T, Seq string }

func (st *State) addIdx(t string) { st.addIdxSeq(t, "") }

func (st *State) addIdxSeq(t, seq string) {
	if t == "" || len(t) > 1500 || strings.Contains(t, "?") {
		return
	}
	for _, x := range st.idx {
		if x.T == t && x.Seq == seq {
			return
		}
	}
	st.idx = append(st.idx, IdxT{t, seq})
}

// ---------- out-of-subset signalling ----------

type oosErr struct {
	msg        string
	rebindable string
}

func oos(format string, args ...interface{}) oosErr {
	return oosErr{msg: fmt.Sprintf(format, args...)}
}

func (e oosErr) Error() string { return e.msg }

// helper for heap key names
func fieldKey(owner types.Type, path string) string {
	return "H." + typeName(owner) + "." + path
}

func elemKey(et types.Type) string { return "E." + typeName(et) }

// cells are keyed by the underlying type: *GasPool converted to *uint64 addresses the same memory
func cellKey(t types.Type) string {
	if isBigInt(t) {
		return "G.bigval"
	}
	if _, isStruct := t.Underlying().(*types.Struct); isStruct {
		return "C." + typeName(t)
	}
	return "C." + typeName(t.Underlying())
}

func stripComp(key string) string {
	if i := strings.Index(key, "$"); i >= 0 {
		return key[:i]
	}
	return key
}

var typesUntypedInt types.Type = types.Typ[types.UntypedInt]

func copyBoolMap(m map[string]bool) map[string]bool {
	out := make(map[string]bool, len(m))
	for k, v := range m {
		out[k] = v
	}
	return out
}

// markEscaping records the fresh objects mentioned by the given terms as escaped
func (st *State) markEscaping(terms []string) {
	for _, t := range terms {
		if !strings.Contains(t, "ref!") {
			continue
		}
		for _, f := range st.freshList {
			if !st.escRefs[f] && strings.Contains(t, f) {
				if st.escRefs == nil {
					st.escRefs = map[string]bool{}
				}
				st.escRefs[f] = true
			}
		}
	}
}
