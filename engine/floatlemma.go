package main

// Float lemmas: identities between a float computation over integer leaves ("float island") and a closed integer form,
// proved on every run in the FloatingPoint + BitVector theories (cvc5 decides them; both z3 versions usually time out).
//
//   //@ float_lemma ceil_two_thirds
//   //@   props C03
//   //@   shape toint:uint32(ceil(div(mul(fromint:int(#0),const:2),const:3)))
//   //@   equals (2*leaf0 + 2) / 3
//   //@   range 0 <= leaf0 && leaf0 < 65536
//
// The shape is what the executor derives from the real SSA (Convert/BinOp/math.Ceil instructions); if the code changes,
// the shape no longer matches and the conversion result stays uninterpreted, so dependent obligations fail.

import (
	"fmt"
	"go/ast"
	"go/parser"
	"go/token"
	"strconv"
	"strings"

	"golang.org/x/tools/go/ssa"
)

type FloatLemma struct {
	Name   string
	Pkg    string
	Where  string
	Props  []string
	Shape  string
	Equals string
	Range  string
	used   bool
}

func (x *Exec) useFloatLemma(fr *Frame, st *State, v *ssa.Convert, shape string, leaves []string, r string) {
	for _, fl := range x.eng.cs.FloatLemmas {
		if strings.ReplaceAll(fl.Shape, " ", "") != shape {
			continue
		}
		fl.used = true
		names := map[string]Val{}
		for i, l := range leaves {
			names[fmt.Sprintf("leaf%d", i)] = Val{K: KInt, T: typesUntypedInt, S: l}
		}
		env := &SpecEnv{x: x, fr: fr, st: st, old: st, names: names, pkg: fl.Pkg}
		rng, err1 := parseSpecExpr(fl.Range)
		eq, err2 := parseSpecExpr(fl.Equals)
		if err1 != nil || err2 != nil {
			panic(oos("float lemma %s: cannot parse range/equals", fl.Name))
		}
		st.assume(sImp(env.evalBool(rng).S, sEq(r, env.eval(eq).S)))
		x.note("float lemma " + fl.Name + " (proved in FP+BV on every run) gives meaning to the float->int conversion at " + x.where(v))
		return
	}
	x.note("float->int conversion at " + x.where(v) + " has no matching float lemma: its result is uninterpreted (shape " + shape + ")")
}

// ---------- proving a float lemma ----------

type shapeNode struct {
	op   string
	arg  string // type for fromint/toint, value for const, leaf index
	kids []*shapeNode
}

func parseShape(s string) (*shapeNode, error) {
	s = strings.ReplaceAll(s, " ", "")
	n, rest, err := parseShapeRec(s)
	if err != nil {
		return nil, err
	}
	if rest != "" {
		return nil, fmt.Errorf("trailing %q", rest)
	}
	return n, nil
}

func parseShapeRec(s string) (*shapeNode, string, error) {
	if strings.HasPrefix(s, "#") {
		j := 1
		for j < len(s) && s[j] >= '0' && s[j] <= '9' {
			j++
		}
		return &shapeNode{op: "leaf", arg: s[1:j]}, s[j:], nil
	}
	i := strings.IndexAny(s, "(,)")
	head := s
	if i >= 0 {
		head = s[:i]
	}
	n := &shapeNode{op: head}
	if c := strings.Index(head, ":"); c >= 0 {
		n.op, n.arg = head[:c], head[c+1:]
	}
	if i < 0 || s[i] != '(' {
		if i < 0 {
			return n, "", nil
		}
		return n, s[i:], nil
	}
	rest := s[i+1:]
	for {
		k, r, err := parseShapeRec(rest)
		if err != nil {
			return nil, "", err
		}
		n.kids = append(n.kids, k)
		if r == "" {
			return nil, "", fmt.Errorf("unbalanced shape")
		}
		if r[0] == ',' {
			rest = r[1:]
			continue
		}
		if r[0] == ')' {
			return n, r[1:], nil
		}
		return nil, "", fmt.Errorf("unexpected %q", r)
	}
}

func (n *shapeNode) fp() (string, error) {
	switch n.op {
	case "fromint":
		if len(n.kids) != 1 || n.kids[0].op != "leaf" {
			return "", fmt.Errorf("fromint needs a leaf")
		}
		conv := "(_ to_fp 11 53)"
		if strings.HasPrefix(n.arg, "uint") {
			conv = "(_ to_fp_unsigned 11 53)"
		}
		return fmt.Sprintf("(%s RNE leaf%s)", conv, n.kids[0].arg), nil
	case "const":
		f, err := strconv.ParseFloat(n.arg, 64)
		if err != nil {
			return "", err
		}
		return fpLit(f), nil
	case "mul", "div", "add", "sub":
		if len(n.kids) != 2 {
			return "", fmt.Errorf("%s needs two operands", n.op)
		}
		a, err := n.kids[0].fp()
		if err != nil {
			return "", err
		}
		b, err := n.kids[1].fp()
		if err != nil {
			return "", err
		}
		return fmt.Sprintf("(fp.%s RNE %s %s)", n.op, a, b), nil
	case "ceil", "floor":
		a, err := n.kids[0].fp()
		if err != nil {
			return "", err
		}
		mode := "RTP"
		if n.op == "floor" {
			mode = "RTN"
		}
		return fmt.Sprintf("(fp.roundToIntegral %s %s)", mode, a), nil
	}
	return "", fmt.Errorf("unknown shape operator %q", n.op)
}

func (n *shapeNode) leaves(set map[string]bool) {
	if n.op == "leaf" {
		set[n.arg] = true
	}
	for _, k := range n.kids {
		k.leaves(set)
	}
}

// bvExpr translates an integer spec expression over leafN into 64-bit bit-vector arithmetic
func bvExpr(e ast.Expr) (string, error) {
	switch v := e.(type) {
	case *ast.ParenExpr:
		return bvExpr(v.X)
	case *ast.Ident:
		if strings.HasPrefix(v.Name, "leaf") {
			return v.Name, nil
		}
		return "", fmt.Errorf("unknown identifier %s", v.Name)
	case *ast.BasicLit:
		n, err := strconv.ParseInt(v.Value, 0, 64)
		if err != nil {
			return "", err
		}
		return fmt.Sprintf("(_ bv%d 64)", n), nil
	case *ast.BinaryExpr:
		a, err := bvExpr(v.X)
		if err != nil {
			return "", err
		}
		b, err := bvExpr(v.Y)
		if err != nil {
			return "", err
		}
		op := map[token.Token]string{token.ADD: "bvadd", token.SUB: "bvsub", token.MUL: "bvmul", token.QUO: "bvsdiv", token.REM: "bvsrem",
			token.LSS: "bvslt", token.LEQ: "bvsle", token.GTR: "bvsgt", token.GEQ: "bvsge", token.EQL: "=", token.LAND: "and", token.LOR: "or"}[v.Op]
		if op == "" {
			return "", fmt.Errorf("unsupported operator %s", v.Op)
		}
		return fmt.Sprintf("(%s %s %s)", op, a, b), nil
	}
	return "", fmt.Errorf("unsupported expression %T", e)
}

func (eng *Engine) verifyFloatLemma(fl *FloatLemma, timeoutMs int) *FuncResult {
	key := "floatlemma:" + fl.Pkg + "." + fl.Name
	res := &FuncResult{Key: key, Where: fl.Where}
	x := newExec(eng, nil, nil, key, -1)
	res.x, res.decls = x, x.decls
	o := &Oblig{Name: key + "#identity", Kind: "float-lemma", Fn: key, Where: fl.Where, Goal: atom("false")}
	res.Obs = []*Oblig{o}
	fail := func(msg string) *FuncResult {
		o.Res = SolveResult{Status: "sat", Solver: "none", Output: msg}
		o.Kind = "subset"
		o.Where = msg
		return res
	}
	sh, err := parseShape(fl.Shape)
	if err != nil {
		return fail("bad shape: " + err.Error())
	}
	if sh.op != "toint" || len(sh.kids) != 1 {
		return fail("shape must start with toint:<type>(...)")
	}
	body, err := sh.kids[0].fp()
	if err != nil {
		return fail("bad shape: " + err.Error())
	}
	eqE, err := parser.ParseExpr(fl.Equals)
	if err != nil {
		return fail("bad equals: " + err.Error())
	}
	rgE, err := parser.ParseExpr(fl.Range)
	if err != nil {
		return fail("bad range: " + err.Error())
	}
	rhs, err := bvExpr(eqE)
	if err != nil {
		return fail("equals: " + err.Error())
	}
	rng, err := bvExpr(rgE)
	if err != nil {
		return fail("range: " + err.Error())
	}
	set := map[string]bool{}
	sh.leaves(set)
	var b strings.Builder
	b.WriteString("(set-logic ALL)\n")
	for l := range set {
		b.WriteString("(declare-const leaf" + l + " (_ BitVec 64))\n")
	}
	b.WriteString("(define-fun fr () (_ FloatingPoint 11 53) " + body + ")\n")
	b.WriteString("(assert " + rng + ")\n")
	// Go: conversion of an in-range float to an integer type truncates toward zero
	hi := map[string]string{"uint32": "4294967296.0", "int": "9223372036854775807.0", "int64": "9223372036854775807.0", "uint64": "9223372036854775807.0", "int32": "2147483648.0", "uint": "9223372036854775807.0"}[sh.arg]
	if hi == "" {
		return fail("unsupported target type " + sh.arg)
	}
	hf, _ := strconv.ParseFloat(hi, 64)
	goal := fmt.Sprintf("(and (fp.leq %s fr) (fp.lt fr %s) (= ((_ fp.to_sbv 64) RTZ fr) %s))", fpLit(0), fpLit(hf), rhs)
	b.WriteString("(assert (not " + goal + "))\n(check-sat)\n")
	o.raw = b.String()
	o.timeout = 90000
	return res
}
