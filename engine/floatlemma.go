package main

import "golang.org/x/tools/go/ssa"

func (x *Exec) useFloatLemma(fr *Frame, st *State, v *ssa.Convert, shape string, leaves []string, r string) {
}
