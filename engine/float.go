package main

// Floating point: values are SMT FloatingPoint terms built from "float islands" whose leaves are integer terms.
// A float->int conversion yields an uninterpreted (functional) integer result; a contract-level `float_lemma`
// (proved separately in the FP+BV theories) gives it meaning.  See floatlemma.go.

import (
	"fmt"
	"go/token"
	"go/types"
	"math"
	"strings"

	"golang.org/x/tools/go/ssa"
)

// FExpr is the shape of a float computation
type FExpr struct {
	Op   string // fromint | const | mul | div | add | sub | ceil | floor
	Kids []*FExpr
	Leaf string     // Int term (fromint)
	LT   types.Type // integer type of the leaf
	C    float64
}

func (f *FExpr) shape(leaves *[]string) string {
	switch f.Op {
	case "fromint":
		idx := -1
		for i, l := range *leaves {
			if l == f.Leaf {
				idx = i
			}
		}
		if idx < 0 {
			*leaves = append(*leaves, f.Leaf)
			idx = len(*leaves) - 1
		}
		return fmt.Sprintf("fromint:%s(#%d)", f.LT.Underlying().String(), idx)
	case "const":
		return fmt.Sprintf("const:%v", f.C)
	}
	var ks []string
	for _, k := range f.Kids {
		ks = append(ks, k.shape(leaves))
	}
	return f.Op + "(" + strings.Join(ks, ",") + ")"
}

func fpLit(f float64) string {
	bits := math.Float64bits(f)
	return fmt.Sprintf("(fp #b%01b #b%011b #b%052b)", bits>>63, (bits>>52)&0x7ff, bits&((1<<52)-1))
}

func (x *Exec) intToFloat(st *State, a Val, t types.Type) Val {
	return Val{K: KFloat, T: t, S: "fisland", Fl: &FExpr{Op: "fromint", Leaf: a.S, LT: a.T}}
}

func floatOf(v Val) *FExpr {
	if v.Fl != nil {
		return v.Fl
	}
	return nil
}

func (x *Exec) floatBinop(st *State, v *ssa.BinOp, a, b Val) Val {
	t := v.Type()
	fa, fb := floatOf(a), floatOf(b)
	if fa == nil || fb == nil {
		return opaque(t, "float operand without island")
	}
	op := map[token.Token]string{token.ADD: "add", token.SUB: "sub", token.MUL: "mul", token.QUO: "div"}[v.Op]
	if op == "" {
		return opaque(t, "float comparison/operator "+v.Op.String())
	}
	return Val{K: KFloat, T: t, S: "fisland", Fl: &FExpr{Op: op, Kids: []*FExpr{fa, fb}}}
}

func (x *Exec) floatRound(a Val, op string) Val {
	if a.Fl == nil {
		return opaque(a.T, "rounding of float without island")
	}
	return Val{K: KFloat, T: a.T, S: "fisland", Fl: &FExpr{Op: op, Kids: []*FExpr{a.Fl}}}
}

// floatToInt: the result is a function of the island's leaves; its meaning comes from a float lemma of the contract
func (x *Exec) floatToInt(fr *Frame, st *State, v *ssa.Convert, a Val, t types.Type) Val {
	if a.Fl == nil {
		return opaque(t, "float->int of unmodelled float")
	}
	var leaves []string
	shape := "toint:" + t.Underlying().String() + "(" + a.Fl.shape(&leaves) + ")"
	id := x.tagID("fisl:" + shape)
	fn := fmt.Sprintf("fisland.%d", id)
	sorts := make([]string, len(leaves))
	for i := range sorts {
		sorts[i] = "Int"
	}
	x.decls.Fun(fn, sorts, "Int")
	r := "(" + fn + " " + strings.Join(leaves, " ") + ")"
	if len(leaves) == 0 {
		r = fn
	}
	st.assume(inRange(r, t))
	x.useFloatLemma(fr, st, v, shape, leaves, r)
	return intVal(r, t)
}
