package main

// Loading the real packages of /repo (go/packages + go/ssa), function lookup, contract discovery, type resolution.

import (
	"context"
	"fmt"
	"go/ast"
	"go/constant"
	"go/token"
	"go/types"
	"os"
	"path/filepath"
	"strconv"
	"strings"
	"time"

	"golang.org/x/tools/go/packages"
	"golang.org/x/tools/go/ssa"
	"golang.org/x/tools/go/ssa/ssautil"
)

const modulePath = "github.com/LemoFoundationLtd/lemochain-core"

type guardInfo struct {
	owner     types.Type
	lockField string
	name      string
	global    string // package-level lock variable (constant ref term), for "guarded_by var x : lockVar"
}

type Engine struct {
	curView     string            // proof view for the next verifyFunc call
	excuses     map[string]string // open known findings: obligation name -> pre-state predicate describing the recorded failing inputs
	repo        string
	verif       string
	prog        *ssa.Program
	pkgs        []*packages.Package
	spkgs       map[string]*ssa.Package   // by path suffix
	tpkgs       map[string]*types.Package // by path suffix (including dependencies seen through imports)
	cs          *ContractSet
	frames      map[*ssa.Function]*Effects
	reads       map[*ssa.Function]*Effects
	finalsShown bool
	finals      map[types.Object]constant.Value // effectively constant package-level integer variables
	rebind      map[string]string               // loop-invariant names re-bound to (renamed) locals, for the function being verified
	guarded     map[string]guardInfo
	guardedSub  map[string]guardInfo // struct-typed guarded fields, by the tag of their sub-object reference
	funcs       map[string]*ssa.Function
	loadSecs    float64
}

func (eng *Engine) pkgSuffix(path string) string {
	if strings.HasPrefix(path, modulePath+"/") {
		return path[len(modulePath)+1:]
	}
	return path
}

func (eng *Engine) load(patterns []string) error {
	t0 := time.Now()
	mode := packages.NeedName | packages.NeedFiles | packages.NeedCompiledGoFiles | packages.NeedImports | packages.NeedTypes |
		packages.NeedTypesSizes | packages.NeedSyntax | packages.NeedTypesInfo | packages.NeedModule
	cfg := &packages.Config{Mode: mode, Dir: eng.repo, BuildFlags: []string{"-tags=verif"}, Context: context.Background(),
		Env: append(os.Environ(), "GOFLAGS=-mod=mod", "GOPROXY=off", "GOSUMDB=off", "GOTOOLCHAIN=local")}
	pkgs, err := packages.Load(cfg, patterns...)
	if err != nil {
		return err
	}
	var errs []string
	for _, p := range pkgs {
		for _, e := range p.Errors {
			errs = append(errs, e.Error())
		}
	}
	if len(errs) > 0 {
		return fmt.Errorf("package load errors: %s", strings.Join(errs, "; "))
	}
	prog, spkgs := ssautil.Packages(pkgs, ssa.GlobalDebug|ssa.BareInits)
	prog.Build()
	eng.prog = prog
	eng.pkgs = pkgs
	eng.spkgs = map[string]*ssa.Package{}
	eng.tpkgs = map[string]*types.Package{}
	for i, p := range pkgs {
		if spkgs[i] == nil {
			continue
		}
		eng.spkgs[eng.pkgSuffix(p.PkgPath)] = spkgs[i]
	}
	var visit func(p *types.Package)
	visit = func(p *types.Package) {
		s := eng.pkgSuffix(p.Path())
		if _, ok := eng.tpkgs[s]; ok {
			return
		}
		eng.tpkgs[s] = p
		for _, q := range p.Imports() {
			visit(q)
		}
	}
	for _, p := range pkgs {
		visit(p.Types)
	}
	eng.frames = map[*ssa.Function]*Effects{}
	eng.reads = map[*ssa.Function]*Effects{}
	eng.funcs = map[string]*ssa.Function{}
	eng.loadSecs = time.Since(t0).Seconds()
	return nil
}

// loadContracts reads every verif_contracts.go under the repo and the stdlib contract files of /verif
func (eng *Engine) loadContracts() {
	eng.cs = newContractSet()
	filepath.Walk(eng.repo, func(path string, info os.FileInfo, err error) error {
		if err != nil {
			return nil
		}
		if info.IsDir() && (info.Name() == ".git" || info.Name() == "testdata") {
			return filepath.SkipDir
		}
		if !info.IsDir() && info.Name() == "verif_contracts.go" {
			rel, _ := filepath.Rel(eng.repo, filepath.Dir(path))
			eng.cs.loadContractFile(path, filepath.ToSlash(rel))
		}
		return nil
	})
	files, _ := filepath.Glob(filepath.Join(eng.verif, "stdlib_contracts", "*.go"))
	for _, f := range files {
		eng.cs.loadContractFile(f, "")
	}
	for k, c := range eng.cs.Funcs {
		if c.Trusted {
			eng.cs.Assumed = append(eng.cs.Assumed, k)
		}
	}
	// guarded_by declarations
	eng.guarded = map[string]guardInfo{}
	eng.guardedSub = map[string]guardInfo{}
}

func (eng *Engine) resolveGuards() {
	for _, g := range eng.cs.Guarded {
		tp := eng.tpkgs[g.Pkg]
		if tp == nil {
			continue
		}
		if strings.HasPrefix(g.Field, "var ") {
			// a package-level struct variable guarded by a package-level mutex: every field of the variable's (own) struct type
			v, ok := tp.Scope().Lookup(strings.TrimSpace(g.Field[4:])).(*types.Var)
			lv, ok2 := tp.Scope().Lookup(g.Lock).(*types.Var)
			if !ok || !ok2 {
				panic("guarded_by: unknown package variable in " + g.Field + " : " + g.Lock)
			}
			stt, isStruct := v.Type().Underlying().(*types.Struct)
			if !isStruct {
				panic("guarded_by var: " + v.Name() + " is not a struct variable")
			}
			for i := 0; i < stt.NumFields(); i++ {
				eng.guarded[fieldKey(v.Type(), sanitize(stt.Field(i).Name()))] = guardInfo{owner: v.Type(), name: v.Name() + "." + stt.Field(i).Name(),
					global: "gref." + sanitize(g.Pkg) + "." + lv.Name()}
			}
			continue
		}
		fp := strings.SplitN(g.Field, ".", 2)
		lp := strings.SplitN(g.Lock, ".", 2)
		if len(fp) != 2 || len(lp) != 2 {
			continue
		}
		tn, ok := tp.Scope().Lookup(fp[0]).(*types.TypeName)
		if !ok {
			continue
		}
		gi := guardInfo{owner: tn.Type(), lockField: lp[1], name: g.Field}
		eng.guarded[fieldKey(tn.Type(), sanitize(fp[1]))] = gi
		eng.guardedSub[sanitize("sub."+typeName(tn.Type())+"."+fp[1])] = gi
	}
}

func (eng *Engine) findLemma(pkg, name string) *Contract {
	for _, l := range eng.cs.Lemmas {
		if l.Key == "lemma:"+pkg+"."+name {
			return l
		}
	}
	return nil
}

func (eng *Engine) typesPkg(suffix string) *types.Package {
	return eng.tpkgs[suffix]
}

// resolvePkgName maps an import name used in a spec of package pkgSuffix to a package path suffix
func (eng *Engine) resolvePkgName(pkgSuffix, name string) string {
	if tp := eng.tpkgs[pkgSuffix]; tp != nil {
		for _, imp := range tp.Imports() {
			if imp.Name() == name {
				return eng.pkgSuffix(imp.Path())
			}
		}
	}
	// any known package with that name (specs may mention packages the Go file does not import)
	var found string
	for s, p := range eng.tpkgs {
		if p.Name() == name {
			if strings.HasPrefix(p.Path(), modulePath) {
				return s
			}
			if found == "" || len(s) < len(found) {
				found = s
			}
		}
	}
	return found
}

// fnKey gives the contract key of an SSA function
func (eng *Engine) fnKey(fn *ssa.Function) string {
	if fn == nil {
		return ""
	}
	if fn.Pkg == nil && fn.Signature.Recv() == nil {
		return fn.String()
	}
	var pk string
	if fn.Pkg != nil {
		pk = eng.pkgSuffix(fn.Pkg.Pkg.Path())
	} else if fn.Object() != nil && fn.Object().Pkg() != nil {
		pk = eng.pkgSuffix(fn.Object().Pkg().Path())
	}
	if fn.Parent() != nil {
		return eng.fnKey(fn.Parent()) + "$" + fn.Name()[strings.LastIndex(fn.Name(), "$")+1:]
	}
	if recv := fn.Signature.Recv(); recv != nil {
		rt := recv.Type()
		ptr := ""
		if p, ok := rt.(*types.Pointer); ok {
			rt = p.Elem()
			ptr = "*"
		}
		tn := types.TypeString(rt, func(*types.Package) string { return "" })
		if n, ok := rt.(*types.Named); ok {
			tn = n.Obj().Name()
			if n.Obj().Pkg() != nil {
				pk = eng.pkgSuffix(n.Obj().Pkg().Path())
			}
		}
		return fmt.Sprintf("%s.(%s%s).%s", pk, ptr, tn, fn.Name())
	}
	return pk + "." + fn.Name()
}

func (eng *Engine) ifaceKey(t types.Type, method string) string {
	if n, ok := t.(*types.Named); ok && n.Obj().Pkg() != nil {
		return fmt.Sprintf("%s.(%s).%s", eng.pkgSuffix(n.Obj().Pkg().Path()), n.Obj().Name(), method)
	}
	if n, ok := t.(*types.Named); ok {
		return fmt.Sprintf("(%s).%s", n.Obj().Name(), method) // error.Error
	}
	return "(iface)." + method
}

func (eng *Engine) ifaceKeyOf(c *ssa.CallCommon) string {
	return eng.ifaceKey(c.Value.Type(), c.Method.Name())
}

func (eng *Engine) ifaceContract(c *ssa.CallCommon) *Contract {
	return eng.cs.Funcs[eng.ifaceKeyOf(c)]
}

func (eng *Engine) funcTypeContract(t types.Type) *Contract {
	if n, ok := t.(*types.Named); ok && n.Obj().Pkg() != nil {
		return eng.cs.Funcs[eng.pkgSuffix(n.Obj().Pkg().Path())+".type:"+n.Obj().Name()]
	}
	return nil
}

// funcFieldContract: the contract declared for calls through a function-typed struct field (key pkg.field:Type.name), when the
// called value is a load of that field
func (eng *Engine) funcFieldContract(v ssa.Value) *Contract {
	u, ok := v.(*ssa.UnOp)
	if !ok || u.Op != token.MUL {
		return nil
	}
	fa, ok := u.X.(*ssa.FieldAddr)
	if !ok {
		return nil
	}
	pt, ok := fa.X.Type().Underlying().(*types.Pointer)
	if !ok {
		return nil
	}
	n, ok := pt.Elem().(*types.Named)
	if !ok || n.Obj().Pkg() == nil {
		return nil
	}
	st, ok := n.Underlying().(*types.Struct)
	if !ok {
		return nil
	}
	return eng.cs.Funcs[eng.pkgSuffix(n.Obj().Pkg().Path())+".field:"+n.Obj().Name()+"."+st.Field(fa.Field).Name()]
}

// finalGlobal: the value of a package-level variable of integer type that is initialised with a constant expression and that no
// function of the program ever assigns or takes the address of (effectively a constant); ok=false otherwise.
func (eng *Engine) finalGlobal(g *ssa.Global) (constant.Value, bool) {
	if eng.finals == nil {
		eng.finals = map[types.Object]constant.Value{}
		for _, p := range eng.pkgs {
			if p.TypesInfo == nil || !strings.HasPrefix(p.PkgPath, modulePath) {
				continue
			}
			for _, f := range p.Syntax {
				for _, d := range f.Decls {
					gd, ok := d.(*ast.GenDecl)
					if !ok || gd.Tok != token.VAR {
						continue
					}
					for _, sp := range gd.Specs {
						vs, ok := sp.(*ast.ValueSpec)
						if !ok || len(vs.Values) != len(vs.Names) {
							continue
						}
						for i, nm := range vs.Names {
							tv, ok := p.TypesInfo.Types[vs.Values[i]]
							obj := p.TypesInfo.Defs[nm]
							if !ok || tv.Value == nil || obj == nil || tv.Value.Kind() != constant.Int {
								continue
							}
							if b, isBasic := obj.Type().Underlying().(*types.Basic); !isBasic || b.Info()&types.IsInteger == 0 {
								continue
							}
							eng.finals[obj] = tv.Value
						}
					}
				}
			}
		}
		if os.Getenv("GOVC_DEBUG_FINALS") != "" {
			fmt.Fprintln(os.Stderr, "final candidates:", len(eng.finals), "pkgs:", len(eng.pkgs))
		}
		if len(eng.finals) > 0 {
			for fn := range ssautil.AllFunctions(eng.prog) {
				if fn.Synthetic == "package initializer" {
					continue // the initialising store itself
				}
				for _, b := range fn.Blocks {
					for _, in := range b.Instrs {
						if u, ok := in.(*ssa.UnOp); ok && u.Op == token.MUL {
							continue // a load
						}
						if _, ok := in.(*ssa.DebugRef); ok {
							continue
						}
						for _, op := range in.Operands(nil) {
							if op == nil || *op == nil {
								continue
							}
							if gg, ok := (*op).(*ssa.Global); ok && gg.Object() != nil {
								delete(eng.finals, gg.Object())
							}
						}
					}
				}
			}
		}
	}
	if os.Getenv("GOVC_DEBUG_FINALS") != "" && !eng.finalsShown {
		eng.finalsShown = true
		debugFinals(eng)
	}
	if g.Object() == nil {
		return nil, false
	}
	v, ok := eng.finals[g.Object()]
	if ok && g.Pkg != nil && !eng.cs.ConstVars[eng.pkgSuffix(g.Pkg.Pkg.Path())+"."+g.Name()] {
		return nil, false // not declared with `constvar` in a contract file
	}
	return v, ok
}

// findFunc resolves a contract key to an SSA function
func (eng *Engine) findFunc(key string) *ssa.Function {
	if f, ok := eng.funcs[key]; ok {
		return f
	}
	f := eng.findFunc0(key)
	eng.funcs[key] = f
	return f
}

func (eng *Engine) findFunc0(key string) *ssa.Function {
	// forms: pkg.F | pkg.(*T).M | pkg.(T).M
	if i := strings.Index(key, ".("); i >= 0 {
		pk := key[:i]
		rest := key[i+2:]
		j := strings.Index(rest, ").")
		if j < 0 {
			return nil
		}
		tn, m := rest[:j], rest[j+2:]
		ptr := strings.HasPrefix(tn, "*")
		tn = strings.TrimPrefix(tn, "*")
		tp := eng.tpkgs[pk]
		if tp == nil {
			return nil
		}
		obj, ok := tp.Scope().Lookup(tn).(*types.TypeName)
		if !ok {
			return nil
		}
		var t types.Type = obj.Type()
		if ptr {
			t = types.NewPointer(t)
		}
		sel := eng.prog.MethodSets.MethodSet(t).Lookup(tp, m)
		if sel == nil {
			return nil
		}
		fn := eng.prog.MethodValue(sel)
		// MethodValue of a promoted/wrapper method: make sure it is the declared one
		if fn != nil && fn.Synthetic != "" {
			return nil
		}
		return fn
	}
	i := strings.LastIndex(key, ".")
	if i < 0 {
		return nil
	}
	pk, name := key[:i], key[i+1:]
	if sp := eng.spkgs[pk]; sp != nil {
		if f := sp.Func(name); f != nil {
			return f
		}
	}
	if tp := eng.tpkgs[pk]; tp != nil {
		if obj, ok := tp.Scope().Lookup(name).(*types.Func); ok {
			return eng.prog.FuncValue(obj)
		}
	}
	return nil
}

func (eng *Engine) lookupMethod(t types.Type, name string) *ssa.Function {
	ms := eng.prog.MethodSets.MethodSet(t)
	for i := 0; i < ms.Len(); i++ {
		if ms.At(i).Obj().Name() == name {
			return eng.prog.MethodValue(ms.At(i))
		}
	}
	if _, isPtr := t.Underlying().(*types.Pointer); !isPtr {
		ms = eng.prog.MethodSets.MethodSet(types.NewPointer(t))
		for i := 0; i < ms.Len(); i++ {
			if ms.At(i).Obj().Name() == name {
				return eng.prog.MethodValue(ms.At(i))
			}
		}
	}
	return nil
}

// resolveType converts a type expression of a spec into a types.Type
func (eng *Engine) resolveType(pkgSuffix string, e ast.Expr) types.Type {
	switch v := e.(type) {
	case nil:
		return nil
	case *ast.Ident:
		switch v.Name {
		case "mathint":
			return mathInt
		case "byte":
			return types.Typ[types.Uint8]
		case "error":
			return types.Universe.Lookup("error").Type()
		}
		for _, b := range types.Typ {
			if b.Name() == v.Name && b.Info()&types.IsUntyped == 0 {
				return b
			}
		}
		if tp := eng.tpkgs[pkgSuffix]; tp != nil {
			if tn, ok := tp.Scope().Lookup(v.Name).(*types.TypeName); ok {
				return tn.Type()
			}
		}
	case *ast.SelectorExpr:
		if id, ok := v.X.(*ast.Ident); ok {
			if ps := eng.resolvePkgName(pkgSuffix, id.Name); ps != "" {
				if tp := eng.tpkgs[ps]; tp != nil {
					if tn, ok := tp.Scope().Lookup(v.Sel.Name).(*types.TypeName); ok {
						return tn.Type()
					}
				}
			}
		}
	case *ast.StarExpr:
		if t := eng.resolveType(pkgSuffix, v.X); t != nil {
			return types.NewPointer(t)
		}
	case *ast.ArrayType:
		et := eng.resolveType(pkgSuffix, v.Elt)
		if et == nil {
			return nil
		}
		if v.Len == nil {
			return types.NewSlice(et)
		}
		if bl, ok := v.Len.(*ast.BasicLit); ok {
			n, _ := strconv.ParseInt(bl.Value, 0, 64)
			return types.NewArray(et, n)
		}
	case *ast.MapType:
		k, val := eng.resolveType(pkgSuffix, v.Key), eng.resolveType(pkgSuffix, v.Value)
		if k != nil && val != nil {
			return types.NewMap(k, val)
		}
	case *ast.ParenExpr:
		return eng.resolveType(pkgSuffix, v.X)
	}
	return nil
}

func init() {
	debugFinals = func(eng *Engine) {
		for o, v := range eng.finals {
			fmt.Fprintln(os.Stderr, "final:", o.Pkg().Path(), o.Name(), v)
		}
	}
}

var debugFinals func(eng *Engine)
