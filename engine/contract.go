package main

// Contract files: structured //@ comments, parsed into Contract / SpecFunc / Lemma records.

import (
	"fmt"
	"go/ast"
	"go/parser"
	"os"
	"path/filepath"
	"sort"
	"strconv"
	"strings"
)

type Clause struct {
	Src   string
	Expr  ast.Expr
	Where string // file:line
	// proof view (ensures #v: ..., invariant @loop k #v: ...): the function is verified once per view, each time with the untagged
	// clauses plus the clauses of that view, so that unrelated invariants do not burden each other's proofs
	Group string
}

type LetDef struct {
	Name string
	C    Clause
}

type Param struct {
	Name string
	Type ast.Expr
}

type PreItem struct {
	Let string // non-empty: a let binding
	C   Clause
}

type UseClause struct {
	At string // "return" | "loop<k>"
	C  Clause
}

type Contract struct {
	Uses     []UseClause
	Pre      []PreItem // lets and requires in textual order
	Key      string    // full key: <pkg-suffix>.<Func> | <pkg-suffix>.(*T).M | <pkg-suffix>.(T).M
	Pkg      string    // package path suffix (scope for name resolution)
	Where    string
	Props    []string
	Requires []Clause
	Ensures  []Clause
	PanicsIf []Clause
	Lets     []LetDef
	Modifies []Clause
	HasMod   bool
	Pure     bool
	Inline   bool
	Trusted  bool
	NoPanic  bool
	Entry    bool // thread entry: no lock held on entry
	LoopInv  map[int][]Clause
	LoopMod  map[int][]Clause
	AssertAt map[string][]Clause // "loop0.begin", "call:Foo#0.before"
	Unfolds  []Clause
	Ghost    []Param
	// lemma
	IsLemma bool
	Params  []Param
	// options
	Opts map[string]string
	used bool
	// a parameter or named result that was renamed in the code: old name (still used by the contract) -> new name
	alias     map[string]string
	aliasDone bool
}

type SpecFunc struct {
	Name     string
	Pkg      string
	Params   []Param
	Result   ast.Expr
	Body     ast.Expr // nil: uninterpreted
	Src      string
	Where    string
	Rec      bool
	readKeys []readRec
	keysDone bool
	probing  bool
}

type GuardedBy struct {
	Pkg   string
	Field string // Type.field
	Lock  string // Type.field (lock in the same object) or global
}

type ContractSet struct {
	Funcs       map[string]*Contract
	Specs       map[string]*SpecFunc // key: pkg-suffix + "." + name, plus bare name for stdlib-wide ones
	Lemmas      []*Contract
	ConstVars   map[string]bool
	Guarded     []GuardedBy
	FloatLemmas []*FloatLemma
	Files       []string
	Assumed     []string // keys of trusted contracts
}

func newContractSet() *ContractSet {
	return &ContractSet{Funcs: map[string]*Contract{}, Specs: map[string]*SpecFunc{}}
}

var clauseKeywords = map[string]bool{
	"func": true, "lemma": true, "spec": true, "pred": true, "props": true, "requires": true, "ensures": true, "let": true,
	"invariant": true, "assert": true, "modifies": true, "nopanic": true, "panics_if": true, "pure": true, "inline": true,
	"trusted": true, "ghost": true, "guarded_by": true, "constvar": true, "unfold": true, "use": true, "float_lemma": true, "shape": true, "equals": true, "range": true, "entry": true, "opt": true, "loopmod": true, "package": true,
}

// specLines extracts the //@ lines of a file as (text, line number)
func specLines(path string) ([][2]string, error) {
	data, err := os.ReadFile(path)
	if err != nil {
		return nil, err
	}
	var out [][2]string
	for i, line := range strings.Split(string(data), "\n") {
		t := strings.TrimSpace(line)
		var rest string
		switch {
		case strings.HasPrefix(t, "//@"):
			rest = t[3:]
		case strings.HasPrefix(t, "// @"):
			rest = t[4:]
		default:
			continue
		}
		// strip trailing comment
		if j := strings.Index(rest, " // "); j >= 0 {
			rest = rest[:j]
		}
		rest = strings.TrimSpace(rest)
		if rest == "" {
			continue
		}
		out = append(out, [2]string{rest, strconv.Itoa(i + 1)})
	}
	return out, nil
}

func firstWord(s string) (string, string) {
	s = strings.TrimSpace(s)
	i := strings.IndexAny(s, " \t")
	if i < 0 {
		return s, ""
	}
	return s[:i], strings.TrimSpace(s[i+1:])
}

// parseSpecExpr parses a spec expression after rewriting ==>, <==>, $k.
func parseSpecExpr(src string) (ast.Expr, error) {
	s := strings.ReplaceAll(src, "$", "__")
	s = rewriteImplies(s)
	return parser.ParseExpr(s)
}

func mkClause(src, where string) Clause {
	e, err := parseSpecExpr(src)
	if err != nil {
		panic(fmt.Sprintf("%s: cannot parse spec expression %q: %v", where, src, err))
	}
	return Clause{Src: src, Expr: e, Where: where}
}

// rewriteImplies turns "A ==> B" into implies(A, B) and "A <==> B" into iff(A, B) at every nesting level.
func rewriteImplies(s string) string {
	return rwList(s)
}

func matchClose(s string, i int) int {
	d := 0
	for k := i; k < len(s); k++ {
		switch s[k] {
		case '(', '[', '{':
			d++
		case ')', ']', '}':
			d--
			if d == 0 {
				return k
			}
		}
	}
	return -1
}

func rwList(s string) string {
	// split by top-level commas
	var parts []string
	d, start := 0, 0
	for k := 0; k < len(s); k++ {
		switch s[k] {
		case '(', '[', '{':
			d++
		case ')', ']', '}':
			d--
		case ',':
			if d == 0 {
				parts = append(parts, s[start:k])
				start = k + 1
			}
		}
	}
	parts = append(parts, s[start:])
	for i, p := range parts {
		parts[i] = rwSeg(p)
	}
	return strings.Join(parts, ",")
}

func rwSeg(s string) string {
	// first rewrite inside groups
	var b strings.Builder
	for k := 0; k < len(s); {
		if s[k] == '(' || s[k] == '[' || s[k] == '{' {
			c := matchClose(s, k)
			if c < 0 {
				b.WriteString(s[k:])
				break
			}
			b.WriteByte(s[k])
			b.WriteString(rwList(s[k+1 : c]))
			b.WriteByte(s[c])
			k = c + 1
			continue
		}
		b.WriteByte(s[k])
		k++
	}
	s = b.String()
	// find top-level <==> (lowest), then ==>
	d := 0
	for k := 0; k+3 < len(s); k++ {
		switch s[k] {
		case '(', '[', '{':
			d++
		case ')', ']', '}':
			d--
		}
		if d == 0 && strings.HasPrefix(s[k:], "<==>") {
			return "iff(" + rwSeg(s[:k]) + ", " + rwSeg(s[k+4:]) + ")"
		}
	}
	d = 0
	for k := 0; k+2 < len(s); k++ {
		switch s[k] {
		case '(', '[', '{':
			d++
		case ')', ']', '}':
			d--
		}
		if d == 0 && strings.HasPrefix(s[k:], "==>") {
			return "implies(" + s[:k] + ", " + rwSeg(s[k+3:]) + ")"
		}
	}
	return s
}

func parseParams(list string, where string) ([]Param, ast.Expr) {
	// list like "(a int, b *T) R" or "(a int)"
	e, err := parser.ParseExpr("func" + list)
	if err != nil {
		panic(fmt.Sprintf("%s: cannot parse parameter list %q: %v", where, list, err))
	}
	ft := e.(*ast.FuncType)
	var ps []Param
	for _, f := range ft.Params.List {
		for _, n := range f.Names {
			ps = append(ps, Param{Name: n.Name, Type: f.Type})
		}
	}
	var res ast.Expr
	if ft.Results != nil && len(ft.Results.List) > 0 {
		res = ft.Results.List[0].Type
	}
	return ps, res
}

// loadContractFile parses one contract file. pkgSuffix is the package path suffix the file belongs to
// ("" for stdlib contract files, whose func keys are already fully qualified).
func (cs *ContractSet) loadContractFile(path, pkgSuffix string) {
	lines, err := specLines(path)
	if err != nil {
		return
	}
	cs.Files = append(cs.Files, path)
	// join continuation lines
	type item struct{ kw, rest, where string }
	var items []item
	for _, l := range lines {
		kw, rest := firstWord(l[0])
		where := filepath.Base(filepath.Dir(path)) + "/" + filepath.Base(path) + ":" + l[1]
		if clauseKeywords[kw] {
			items = append(items, item{kw, rest, where})
		} else if len(items) > 0 {
			items[len(items)-1].rest += " " + l[0]
		} else {
			panic(where + ": contract text before any keyword")
		}
	}
	var cur *Contract
	var curFL *FloatLemma
	curPkg := pkgSuffix
	for _, it := range items {
		if it.kw != "float_lemma" && curFL != nil {
			switch it.kw {
			case "props":
				curFL.Props = append(curFL.Props, strings.Fields(strings.ReplaceAll(it.rest, ",", " "))...)
				continue
			case "shape":
				curFL.Shape = it.rest
				continue
			case "equals":
				curFL.Equals = it.rest
				continue
			case "range":
				curFL.Range = it.rest
				continue
			}
			curFL = nil
		}
		switch it.kw {
		case "float_lemma":
			curFL = &FloatLemma{Name: strings.TrimSpace(it.rest), Pkg: curPkg, Where: it.where}
			cs.FloatLemmas = append(cs.FloatLemmas, curFL)
			cur = nil
		case "package":
			curPkg = it.rest
		case "func":
			key := it.rest
			flags := ""
			// flags may follow the name on the same line, separated by two spaces or more: "func X   pure"
			if i := strings.Index(key, "  "); i >= 0 {
				flags = key[i:]
				key = strings.TrimSpace(key[:i])
			}
			full := key
			if curPkg != "" {
				full = curPkg + "." + key
			}
			cur = &Contract{Key: full, Pkg: curPkg, Where: it.where, LoopInv: map[int][]Clause{}, LoopMod: map[int][]Clause{}, AssertAt: map[string][]Clause{}, Opts: map[string]string{}}
			if _, dup := cs.Funcs[full]; dup {
				panic(it.where + ": duplicate contract for " + full)
			}
			cs.Funcs[full] = cur
			for _, f := range strings.Fields(flags) {
				applyFlag(cur, f, it.where)
			}
		case "lemma":
			name := it.rest
			plist := "()"
			if i := strings.Index(name, "("); i >= 0 {
				plist = name[i:]
				name = strings.TrimSpace(name[:i])
			}
			ps, _ := parseParams(plist, it.where)
			cur = &Contract{Key: "lemma:" + curPkg + "." + name, Pkg: curPkg, Where: it.where, IsLemma: true, Params: ps, LoopInv: map[int][]Clause{}, LoopMod: map[int][]Clause{}, AssertAt: map[string][]Clause{}, Opts: map[string]string{}}
			cs.Lemmas = append(cs.Lemmas, cur)
		case "spec", "pred":
			rest := it.rest
			if it.kw == "spec" {
				rest = strings.TrimSpace(strings.TrimPrefix(rest, "func"))
			}
			i := strings.Index(rest, "(")
			if i < 0 {
				panic(it.where + ": malformed spec func")
			}
			name := strings.TrimSpace(rest[:i])
			c := matchClose(rest, i)
			sig := rest[i : c+1]
			tail := strings.TrimSpace(rest[c+1:])
			var body string
			if j := strings.Index(tail, "="); j >= 0 && !strings.HasPrefix(tail[j:], "==") {
				body = strings.TrimSpace(tail[j+1:])
				tail = strings.TrimSpace(tail[:j])
			}
			if it.kw == "pred" {
				tail = "bool"
			}
			ps, res := parseParams(sig+" "+tail, it.where)
			sf := &SpecFunc{Name: name, Pkg: curPkg, Params: ps, Result: res, Src: body, Where: it.where}
			if body != "" {
				sf.Body = mkClause(body, it.where).Expr
				sf.Rec = strings.Contains(body, name+"(")
			}
			cs.Specs[curPkg+"."+name] = sf
			cur = nil
		case "constvar":
			// constvar Name[, Name]: package-level integer variables that the engine may read as the constants they are
			// initialised with -- checked: nothing in the program assigns them or takes their address
			for _, n := range strings.Split(it.rest, ",") {
				if n = strings.TrimSpace(n); n != "" {
					if cs.ConstVars == nil {
						cs.ConstVars = map[string]bool{}
					}
					cs.ConstVars[curPkg+"."+n] = true
				}
			}
		case "guarded_by":
			// guarded_by Type.field : Type.lock
			parts := strings.SplitN(it.rest, ":", 2)
			if len(parts) != 2 {
				panic(it.where + ": malformed guarded_by")
			}
			for _, f := range strings.Split(parts[0], ",") {
				cs.Guarded = append(cs.Guarded, GuardedBy{Pkg: curPkg, Field: strings.TrimSpace(f), Lock: strings.TrimSpace(parts[1])})
			}
		default:
			if cur == nil {
				panic(it.where + ": clause outside a func/lemma block: " + it.kw)
			}
			switch it.kw {
			case "props":
				cur.Props = append(cur.Props, strings.Fields(strings.ReplaceAll(it.rest, ",", " "))...)
			case "requires":
				c := mkClause(it.rest, it.where)
				cur.Requires = append(cur.Requires, c)
				cur.Pre = append(cur.Pre, PreItem{C: c})
			case "ensures":
				rest, grp := strings.TrimSpace(it.rest), ""
				if strings.HasPrefix(rest, "#") {
					if j := strings.Index(rest, ":"); j > 0 {
						grp, rest = strings.TrimSpace(rest[1:j]), strings.TrimSpace(rest[j+1:])
					}
				}
				c := mkClause(rest, it.where)
				c.Group = grp
				cur.Ensures = append(cur.Ensures, c)
			case "panics_if":
				cur.PanicsIf = append(cur.PanicsIf, mkClause(it.rest, it.where))
			case "unfold":
				cur.Unfolds = append(cur.Unfolds, mkClause(it.rest, it.where))
			case "use":
				// use lemma(args)            : instance assumed at every return, before the ensures are proved
				// use @loop k: lemma(args)   : instance assumed at the head of loop k
				rest := strings.TrimSpace(it.rest)
				at := "return"
				if strings.HasPrefix(rest, "@") {
					j := strings.Index(rest, ":")
					hdr := strings.Fields(rest[1:j])
					at = strings.Join(hdr, "")
					rest = strings.TrimSpace(rest[j+1:])
				}
				cur.Uses = append(cur.Uses, UseClause{At: at, C: mkClause(rest, it.where)})
			case "let":
				for _, d := range splitTop(it.rest, ';') {
					d = strings.TrimSpace(d)
					if d == "" {
						continue
					}
					j := strings.Index(d, "=")
					if j < 0 {
						panic(it.where + ": malformed let")
					}
					ld := LetDef{Name: strings.TrimSpace(d[:j]), C: mkClause(strings.TrimSpace(d[j+1:]), it.where)}
					cur.Lets = append(cur.Lets, ld)
					cur.Pre = append(cur.Pre, PreItem{Let: ld.Name, C: ld.C})
				}
			case "modifies":
				cur.HasMod = true
				if strings.TrimSpace(it.rest) != "nothing" {
					for _, m := range splitTop(it.rest, ',') {
						cur.Modifies = append(cur.Modifies, mkClause(strings.TrimSpace(m), it.where))
					}
				}
			case "invariant", "loopmod", "assert":
				// invariant @loop k: expr | assert @loop k begin: expr | assert @before call F#k: expr
				rest := strings.TrimSpace(it.rest)
				j := strings.Index(rest, ":")
				if !strings.HasPrefix(rest, "@") || j < 0 {
					panic(it.where + ": expected '@loop k:' after " + it.kw)
				}
				hdr := strings.Fields(rest[1:j])
				expr := strings.TrimSpace(rest[j+1:])
				if it.kw == "assert" && len(hdr) == 2 && hdr[0] == "call" {
					// assert @call Name#k: expr   -- checked immediately before the k-th call of Name
					key := "call:" + hdr[1]
					cur.AssertAt[key] = append(cur.AssertAt[key], mkClause(expr, it.where))
					continue
				}
				if len(hdr) < 2 || hdr[0] != "loop" {
					panic(it.where + ": expected '@loop k'")
				}
				k, err := strconv.Atoi(hdr[1])
				if err != nil {
					panic(it.where + ": bad loop ordinal")
				}
				switch it.kw {
				case "invariant":
					c := mkClause(expr, it.where)
					if len(hdr) > 2 && strings.HasPrefix(hdr[2], "#") {
						c.Group = hdr[2][1:]
					}
					cur.LoopInv[k] = append(cur.LoopInv[k], c)
				case "loopmod":
					for _, m := range splitTop(expr, ',') {
						cur.LoopMod[k] = append(cur.LoopMod[k], mkClause(strings.TrimSpace(m), it.where))
					}
				case "assert":
					at := "begin"
					if len(hdr) > 2 {
						at = hdr[2]
					}
					key := fmt.Sprintf("loop%d.%s", k, at)
					cur.AssertAt[key] = append(cur.AssertAt[key], mkClause(expr, it.where))
				}
			case "ghost":
				ps, _ := parseParams("("+it.rest+")", it.where)
				cur.Ghost = append(cur.Ghost, ps...)
			case "opt":
				kv := strings.SplitN(it.rest, "=", 2)
				if len(kv) == 2 {
					cur.Opts[strings.TrimSpace(kv[0])] = strings.TrimSpace(kv[1])
				} else {
					cur.Opts[strings.TrimSpace(it.rest)] = "1"
				}
			default:
				applyFlag(cur, it.kw, it.where)
			}
		}
	}
}

func applyFlag(c *Contract, f, where string) {
	switch f {
	case "pure":
		c.Pure = true
	case "inline":
		c.Inline = true
	case "trusted":
		c.Trusted = true
	case "nopanic":
		c.NoPanic = true
	case "entry":
		c.Entry = true
	default:
		panic(where + ": unknown flag " + f)
	}
}

func splitTop(s string, sep byte) []string {
	var parts []string
	d, start := 0, 0
	for k := 0; k < len(s); k++ {
		switch s[k] {
		case '(', '[', '{':
			d++
		case ')', ']', '}':
			d--
		default:
			if s[k] == sep && d == 0 {
				parts = append(parts, s[start:k])
				start = k + 1
			}
		}
	}
	return append(parts, s[start:])
}

func (cs *ContractSet) sortedKeys() []string {
	var ks []string
	for k := range cs.Funcs {
		ks = append(ks, k)
	}
	sort.Strings(ks)
	return ks
}

func hasProp(props []string, id string) bool {
	for _, p := range props {
		if p == id {
			return true
		}
	}
	return false
}

// Views lists the proof views of a contract ("" alone when no clause is tagged)
func (c *Contract) Views() []string {
	set := map[string]bool{}
	for _, e := range c.Ensures {
		if e.Group != "" {
			set[e.Group] = true
		}
	}
	for _, invs := range c.LoopInv {
		for _, e := range invs {
			if e.Group != "" {
				set[e.Group] = true
			}
		}
	}
	if len(set) == 0 {
		return []string{""}
	}
	var out []string
	for g := range set {
		out = append(out, g)
	}
	sort.Strings(out)
	return out
}

// mentions: does any clause of the contract use the identifier?
func (c *Contract) mentions(name string) bool {
	found := false
	visit := func(e ast.Expr) {
		if e == nil || found {
			return
		}
		ast.Inspect(e, func(n ast.Node) bool {
			if id, ok := n.(*ast.Ident); ok && id.Name == name {
				found = true
			}
			return !found
		})
	}
	for _, cl := range c.Requires {
		visit(cl.Expr)
	}
	for _, cl := range c.Ensures {
		visit(cl.Expr)
	}
	for _, cl := range c.PanicsIf {
		visit(cl.Expr)
	}
	for _, cl := range c.Modifies {
		visit(cl.Expr)
	}
	for _, l := range c.Lets {
		visit(l.C.Expr)
		if l.Name == name {
			found = true
		}
	}
	for _, cs := range c.LoopInv {
		for _, cl := range cs {
			visit(cl.Expr)
		}
	}
	for _, cs := range c.AssertAt {
		for _, cl := range cs {
			visit(cl.Expr)
		}
	}
	return found
}

// freeIdents: identifiers the clauses use as values (not selector fields, not called functions, not quantifier binders)
func (c *Contract) freeIdents(semanticOnly bool) map[string]bool {
	out := map[string]bool{}
	bound := map[string]bool{}
	var visit func(e ast.Node)
	visit = func(e ast.Node) {
		if e == nil {
			return
		}
		ast.Inspect(e, func(n ast.Node) bool {
			switch v := n.(type) {
			case *ast.SelectorExpr:
				visit(v.X)
				return false
			case *ast.CallExpr:
				if id, ok := v.Fun.(*ast.Ident); ok {
					switch id.Name {
					case "forall", "exists", "forallKeys", "existsKeys":
						if len(v.Args) > 0 {
							if b, ok := v.Args[0].(*ast.Ident); ok {
								bound[b.Name] = true
							}
						}
					}
				} else {
					visit(v.Fun)
				}
				for _, a := range v.Args {
					visit(a)
				}
				return false
			case *ast.CompositeLit:
				if v.Type != nil {
					visit(v.Type)
				}
				return false
			case *ast.Ident:
				out[v.Name] = true
			}
			return true
		})
	}
	each := func(cs []Clause) {
		for _, cl := range cs {
			if cl.Expr != nil {
				visit(cl.Expr)
			}
		}
	}
	each(c.Requires)
	each(c.Ensures)
	each(c.PanicsIf)
	each(c.Modifies)
	for _, l := range c.Lets {
		if l.C.Expr != nil {
			visit(l.C.Expr)
		}
	}
	if !semanticOnly {
		for _, cs := range c.LoopInv {
			each(cs)
		}
		for _, cs := range c.AssertAt {
			each(cs)
		}
	}
	for b := range bound {
		delete(out, b)
	}
	return out
}
